import sys,re
name=sys.argv[1]
p='/tmp/sT/repo/src/evaluator.go'
s=open(p).read()
def rep(old,new,count=1):
    global s
    assert s.count(old)>=1,(name,old)
    s=s.replace(old,new,count)
if name=='c20a-fuzzflag-leak':
    # fuzzing flag kept in a package variable that is only ever switched on
    rep('var callDepthLimit = 4096','var callDepthLimit = 4096\nvar fuzzingOn = false')
    rep('	ev.fuzzing = fuzzing\n','	if fuzzing {\n		fuzzingOn = true\n	}\n	ev.fuzzing = fuzzingOn\n')
elif name=='c20b-depth-halved-after-overflow':
    # after a depth overflow the limit is lowered "to be safe" and never restored
    rep('	if frame.depth > callDepthLimit {\n		return fmt.Errorf("call depth limit exceeded")','	if frame.depth > callDepthLimit {\n		if e.fuzzing {\n			callDepthLimit = callDepthLimit / 2\n		}\n		return fmt.Errorf("call depth limit exceeded")')
elif name=='c20c-for-continue-skips':
    # the for statement: a round ended by continue goes straight to the post expression and the next test
    old='''				err := e.evalStatement(st.Body)
				if err == errBreak {
					break
				} else if err != nil && err != errContinue {
					return err
				}

				_, err = e.evalExpr(st.PostExpr)
				if err != nil {
					return err
				}
'''
    new='''				err := e.evalStatement(st.Body)
				if err == errBreak {
					break
				} else if err != nil && err != errContinue {
					return err
				}
				cont := err == errContinue

				_, err = e.evalExpr(st.PostExpr)
				if err != nil {
					return err
				}
				if cont {
					continue
				}
'''
    rep(old,new)
elif name=='c20d-loopcount-shared':
    # one counter per evaluator instead of one per execution of a loop statement (while)
    rep('	fuzzing        bool\n','	fuzzing        bool\n	loops          int\n')
    rep('	case *StatementWhile:\n		loopCount := 0\n','	case *StatementWhile:\n')
    old='''			if e.fuzzing {
				if loopCount > fuzzingLoopLimit {
					return e.error(st.Token(), "fuzz test loop limit")
				}
				loopCount++
			}
		}
	case *StatementFor:'''
    new='''			if e.fuzzing {
				if e.loops > fuzzingLoopLimit {
					return e.error(st.Token(), "fuzz test loop limit")
				}
				e.loops++
			}
		}
	case *StatementFor:'''
    rep(old,new)
elif name=='c20e-limit-off-by-one':
    rep('				if loopCount > fuzzingLoopLimit {','				if loopCount >= fuzzingLoopLimit {',1)
elif name=='c20f-inner-break-uncounted':
    # while: the counter is only advanced when the body completed normally (err == nil)
    old='''			if cell.Value.isTruthy() {
				err := e.evalStatement(st.Body)
				if err == errBreak {
					break
				} else if err != nil && err != errContinue {
					return err
				}
			} else {
				break
			}

			if e.fuzzing {'''
    new='''			bodyErr := error(nil)
			if cell.Value.isTruthy() {
				err := e.evalStatement(st.Body)
				if err == errBreak {
					break
				} else if err != nil && err != errContinue {
					return err
				}
				bodyErr = err
			} else {
				break
			}

			if e.fuzzing && bodyErr == nil {'''
    rep(old,new)
else:
    sys.exit('unknown')
open(p,'w').write(s)
