#!/usr/bin/env python3
# mutation rehearsal: apply one mutation to a scratch copy of /repo, build a harness against it,
# run the quick check of the property and summarise what the check reports.
import json, os, shutil, subprocess, sys, time

ENV = dict(os.environ, GOFLAGS='-mod=mod', GOPROXY='off', GOSUMDB='off', GOTOOLCHAIN='local')
EV = 'src/evaluator.go'
MUTS = [
 # ---- C07
 ('C07-M1 skip the for post-expression on continue', 'C07', 'control-laws', EV,
  '''				if err == errBreak {
					break
				} else if err != nil && err != errContinue {
					return err
				}

				_, err = e.evalExpr(st.PostExpr)''',
  '''				if err == errBreak {
					break
				} else if err == errContinue {
					continue
				} else if err != nil {
					return err
				}

				_, err = e.evalExpr(st.PostExpr)'''),
 ('C07-M2 break acts as continue in for-in over arrays', 'C07', '', EV,
  '''				local.Value = item.Value
				err := e.evalStatement(st.Body)
				if err == errBreak {
					break
				}''',
  '''				local.Value = item.Value
				err := e.evalStatement(st.Body)
				if err == errBreak {
					continue
				}'''),
 ('C07-M3 while does not absorb continue', 'C07', '', EV,
  '''			if cell.Value.isTruthy() {
				err := e.evalStatement(st.Body)
				if err == errBreak {
					break
				} else if err != nil && err != errContinue {
					return err
				}
			} else {
				break
			}

			if e.fuzzing {
				if loopCount > fuzzingLoopLimit {
					return e.error(st.Token(), "fuzz test loop limit")
				}
				loopCount++
			}
		}
	case *StatementFor:''',
  '''			if cell.Value.isTruthy() {
				err := e.evalStatement(st.Body)
				if err == errBreak {
					break
				} else if err != nil {
					return err
				}
			} else {
				break
			}

			if e.fuzzing {
				if loopCount > fuzzingLoopLimit {
					return e.error(st.Token(), "fuzz test loop limit")
				}
				loopCount++
			}
		}
	case *StatementFor:'''),
 ('C07-M4 for-in over objects visits keys in reverse order', 'C07', '', EV,
  '''			for _, k := range iterable.Value.sortedKeys() {''',
  '''			ks := iterable.Value.sortedKeys()
			for i, j := 0, len(ks)-1; i < j; i, j = i+1, j-1 {
				ks[i], ks[j] = ks[j], ks[i]
			}
			for _, k := range ks {'''),
 ('C07-M5 for-in over strings: second variable counts runes, not byte offsets', 'C07', '', EV,
  '''			for index, c := range *iterable.Value.Str {
				if indexLocal != nil {
					indexLocal.Value = NewValue(index)
				}''',
  '''			count := -1
			for _, c := range *iterable.Value.Str {
				count++
				index := count
				if indexLocal != nil {
					indexLocal.Value = NewValue(index)
				}'''),
 ('C07-M6 return inside a while loop only leaves the loop', 'C07', '', EV,
  '''				err := e.evalStatement(st.Body)
				if err == errBreak {
					break
				} else if err != nil && err != errContinue {
					return err
				}
			} else {
				break
			}

			if e.fuzzing {
				if loopCount > fuzzingLoopLimit {
					return e.error(st.Token(), "fuzz test loop limit")
				}
				loopCount++
			}
		}
	case *StatementFor:''',
  '''				err := e.evalStatement(st.Body)
				if err == errBreak || err == errReturn {
					break
				} else if err != nil && err != errContinue {
					return err
				}
			} else {
				break
			}

			if e.fuzzing {
				if loopCount > fuzzingLoopLimit {
					return e.error(st.Token(), "fuzz test loop limit")
				}
				loopCount++
			}
		}
	case *StatementFor:'''),
 ('C07-M7 next only skips the current rule', 'C07', '', EV,
  '''		err := e.evalStatement(rule.Body)
		if err == errNext {
			return nil
		}
		if err != nil {
			return err
		}
	}
	return nil
}

// run a BEGIN''',
  '''		err := e.evalStatement(rule.Body)
		if err == errNext {
			continue
		}
		if err != nil {
			return err
		}
	}
	return nil
}

// run a BEGIN'''),
 ('C07-M8 exit inside a for-in over an array acts as break', 'C07', '', EV,
  '''				local.Value = item.Value
				err := e.evalStatement(st.Body)
				if err == errBreak {
					break
				}''',
  '''				local.Value = item.Value
				err := e.evalStatement(st.Body)
				if err == errBreak || err == errExit {
					break
				}'''),
 # ---- C08
 ('C08-M1 no frame restore in callFunction', 'C08', '', EV,
  '''		defer func() { e.stackTop = saved }()

		for index, argName := range f.Args {''',
  '''		_ = saved

		for index, argName := range f.Args {'''),
 ('C08-M2 no frame restore after a match body', 'C08', '', EV,
  '''				defer func() { e.stackTop = saved }()

				for k, v := range bindings {''',
  '''				_ = saved

				for k, v := range bindings {'''),
 ('C08-M3 parameters bound from the wrong end', 'C08', '', EV,
  '''				e.stackTop.locals[argName] = NewCell(*args[index])''',
  '''				e.stackTop.locals[argName] = NewCell(*args[len(args)-1-index])'''),
 ('C08-M4 a missing argument is unset instead of null', 'C08', '', EV,
  '''				e.stackTop.locals[argName] = NewCell(NewValue(nil))''',
  '''				e.stackTop.locals[argName] = NewCell(Value{Tag: ValueUnknown})'''),
 ('C08-M5 normal completion yields the stale return slot', 'C08', '', EV,
  '''		} else {
			retVal = nil
		}''',
  '''		} else {
			retVal = e.returnVal
		}'''),
 ('C08-M6 frame restore only on the normal and return paths (D10: next/exit/error leave frames)', 'C08', '', EV,
  '''		defer func() { e.stackTop = saved }()

		for index, argName := range f.Args {
			if index > len(args)-1 {
				e.stackTop.locals[argName] = NewCell(NewValue(nil))
			} else {
				e.stackTop.locals[argName] = NewCell(*args[index])
			}
		}

		err := e.evalStatement(f.Body)
		var retVal *Value
		if err == errReturn {
			retVal = e.returnVal
		} else if err != nil {
			return nil, err
		} else {
			retVal = nil
		}
''',
  '''		for index, argName := range f.Args {
			if index > len(args)-1 {
				e.stackTop.locals[argName] = NewCell(NewValue(nil))
			} else {
				e.stackTop.locals[argName] = NewCell(*args[index])
			}
		}

		err := e.evalStatement(f.Body)
		var retVal *Value
		if err == errReturn {
			retVal = e.returnVal
		} else if err != nil {
			return nil, err
		} else {
			retVal = nil
		}
		e.stackTop = saved
'''),
 ('C08-M7 call arguments are not copied (scalars by reference)', 'C08', '', EV,
  '''		args, err := e.evalExprList(exp.Args, true)
		if err != nil {
			return nil, err
		}
		argVals := make([]*Value, 0, len(args))''',
  '''		args, err := e.evalExprList(exp.Args, false)
		if err != nil {
			return nil, err
		}
		verifMutArgs = args
		argVals := make([]*Value, 0, len(args))'''),
 ('C08-M8 a function swallows next executed in its body', 'C08', '', EV,
  '''		} else if err != nil {
			return nil, err
		} else {
			retVal = nil
		}''',
  '''		} else if err != nil && err != errNext {
			return nil, err
		} else {
			retVal = nil
		}'''),
 ('C08-M9 names created in a callee are created in the root frame', 'C08', '', EV,
  '''	cell := NewCell(Value{Tag: ValueUnknown})
	e.stackTop.locals[name] = cell
	return cell, nil''',
  '''	cell := NewCell(Value{Tag: ValueUnknown})
	e.setGlobal(name, cell)
	return cell, nil'''),
 # ---- C19
 ('C19-M1 cases tried in reverse order', 'C19', '', EV,
  '''		for _, matchCase := range exp.Cases {
			isMatch := false''',
  '''		for ci := len(exp.Cases) - 1; ci >= 0; ci-- {
			matchCase := exp.Cases[ci]
			isMatch := false'''),
 ('C19-M2 array pattern matches a longer array (length tested with <)', 'C19', '', EV,
  '''	if len(array) != len(pattern.Items) {''',
  '''	if len(array) < len(pattern.Items) {'''),
 ('C19-M3 a failed array alternative fails the whole case (D23)', 'C19', '', EV,
  '''			if match {
				return true, bindings, nil
			}
		case *ExprIdentifier:''',
  '''			if match {
				return true, bindings, nil
			}
			return false, nil, nil
		case *ExprIdentifier:'''),
 ('C19-M4 unset subject compared like any value', 'C19', '', EV,
  '''			if value.Value.Tag == ValueUnknown {
				// like with ==, an unset value isn't equal to any literal
				continue
			}''',
  ''''''),
 ('C19-M5 an expression body yields null', 'C19', '', EV,
  '''					val, err := e.evalExpr(body.Expr)
					if err != nil {
						return nil, err
					}
					return val, nil''',
  '''					_, err := e.evalExpr(body.Expr)
					if err != nil {
						return nil, err
					}
					return NewCell(NewValue(nil)), nil'''),
 ('C19-M6 identifier patterns bind a copy, not the subject cell', 'C19', '', EV,
  '''			bindings[ident] = value
			return true, bindings, nil''',
  '''			bindings[ident] = NewCell(value.Value)
			return true, bindings, nil'''),
 ('C19-M7 duplicate names in one pattern: the earlier binding wins', 'C19', '', EV,
  '''		for k, v := range newBindings {
			bindings[k] = v
		}''',
  '''		for k, v := range newBindings {
			if _, dup := bindings[k]; !dup {
				bindings[k] = v
			}
		}'''),
 ('C19-M8 bindings of a failed array pattern leak (bound before the element test fails)', 'C19', '', EV,
  '''		if !match {
			return false, nil, nil
		}
		for k, v := range newBindings {''',
  '''		if !match {
			for k, v := range bindings {
				e.stackTop.locals[k] = v
			}
			return false, nil, nil
		}
		for k, v := range newBindings {'''),
 ('C19-M9 all alternatives of a case are evaluated even after one matched', 'C19', '', EV,
  '''			if cmp == 0 {
				return true, nil, nil
			}''',
  '''			if cmp == 0 {
				if _, _, err := e.evalCaseMatch(value, exprs[len(exprs)-1:]); err != nil && len(exprs) > 1 {
					return false, nil, err
				}
				return true, nil, nil
			}'''),
 # ---- C20
 ('C20-M1 callDepthLimit raised to 20000', 'C20', 'recursion-limit', EV,
  '''var callDepthLimit = 4096''', '''var callDepthLimit = 20000'''),
 ('C20-M2 >= for > at the fill limit', 'C20', '', 'src/value.go',
  '''			if index > 1024*1024 {''', '''			if index >= 1024*1024 {'''),
 ('C20-M3 depth test off by one (>=)', 'C20', 'recursion-limit', EV,
  '''	if frame.depth > callDepthLimit {''', '''	if frame.depth >= callDepthLimit {'''),
 ('C20-M4 negative width limit off by one', 'C20', '', 'src/runtime.go',
  '''			if num > 65536 || num < -65536 {''', '''			if num > 65536 || num < -65537 {'''),
 ('C20-M5 match bodies are not counted towards the depth limit', 'C20', 'recursion-limit', EV,
  '''				if err = e.pushFrame("<match>"); err != nil {
					return nil, e.error(exp.Token(), err.Error())
				}''',
  '''				if err = e.pushFrame("<match>"); err != nil {
					return nil, e.error(exp.Token(), err.Error())
				}
				e.stackTop.depth--'''),
 ('C20-M6 printf emits the partial text before refusing a width', 'C20', '', 'src/runtime.go',
  '''			if num > 65536 || num < -65536 {
				return nil, fmt.Errorf("width specifier too large")''',
  '''			if num > 65536 || num < -65536 {
				e.print(sb.String())
				return nil, fmt.Errorf("width specifier too large")'''),
 ('C20-M7 decoder errors are returned untyped', 'C20', '', EV,
  '''				return &ev, JsonError{err.Error(), file.Name}''', '''				return &ev, err'''),
 ('C20-M8 width limit 65535', 'C20', '', 'src/runtime.go',
  '''			if num > 65536 || num < -65536 {''', '''			if num > 65535 || num < -65536 {'''),
]

EXTRA = {  # extra declarations a mutation needs
 'C08-M7': ('src/evaluator.go', '\nvar verifMutArgs []*Cell\n'),
}

def run(m):
    name, prop, fam, path, old, new = m
    shutil.rmtree('/tmp/famE/repo', ignore_errors=True)
    shutil.copytree('/tmp/famE/repo_pristine', '/tmp/famE/repo')
    p = os.path.join('/tmp/famE/repo', path)
    s = open(p).read()
    if s.count(old) != 1:
        return name + ': PATTERN NOT UNIQUE (%d)' % s.count(old)
    s = s.replace(old, new)
    key = name.split()[0]
    if key in EXTRA:
        s += EXTRA[key][1]
    if key == 'C08-M7':
        # bind the argument cells themselves
        s = s.replace('e.stackTop.locals[argName] = NewCell(*args[index])', 'e.stackTop.locals[argName] = verifMutArgs[index]')
    open(p, 'w').write(s)
    b = subprocess.run(['go', 'build', '-tags', 'verif', '-o', 'bin/harness', '.'], cwd='/tmp/famE/mut/harness', env=ENV, capture_output=True, text=True)
    if b.returncode != 0:
        return name + ': BUILD FAILED ' + b.stderr[-400:]
    out = '/tmp/famE/mut/res.json'
    rd = '/tmp/famE/mut/replays'
    shutil.rmtree(rd, ignore_errors=True)
    args = ['./bin/harness', 'check', '-prop', prop, '-tier', 'quick', '-seed', '1', '-model', '/tmp/famE/verif/lean/.lake/build/bin/jqmodel', '-replay-dir', rd, '-out', out]
    if fam:
        args += ['-family', fam]
    t = time.time()
    subprocess.run(args, cwd='/tmp/famE/mut/harness', env=ENV, capture_output=True)
    r = json.load(open(out))
    hist = {}
    for v in r['violations']:
        k = v['family'] + '/' + v['kind']
        hist[k] = hist.get(k, 0) + 1
    first = r['violations'][0]['what'][:160] if r['violations'] else ''
    return '%s: %d violations of %d cases %s (%.0fs) e.g. %s' % (name, len(r['violations']), r['evaluations'], json.dumps(hist, sort_keys=True), time.time() - t, first)

if __name__ == '__main__':
    sel = sys.argv[1:]
    for m in MUTS:
        if sel and not any(m[0].startswith(x) for x in sel):
            continue
        print(run(m), flush=True)
    shutil.rmtree('/tmp/famE/repo', ignore_errors=True)
    shutil.copytree('/tmp/famE/repo_pristine', '/tmp/famE/repo')
