#!/usr/bin/env python3
"""apply each mutation to /tmp/sJ/mut/repo, run jqawk's own tests, run the property's quick check, restore"""
import subprocess, sys, os
REPO = "/tmp/sJ/mut/repo"
ENV = dict(os.environ, GOFLAGS="-mod=mod", GOPROXY="off", GOSUMDB="off", GOTOOLCHAIN="local")

def sh(cmd, cwd=None):
    p = subprocess.run(cmd, shell=True, cwd=cwd, env=ENV, stdout=subprocess.PIPE, stderr=subprocess.STDOUT, text=True)
    return p.returncode, p.stdout

MUTS = [
 ("C01-1a string index takes the character (rune) at a position bounded by the byte length", "C01", "multibyte-text-operations", [
   ("src/value.go", "char = NewString(string((*v.Str)[index]))", "char = NewString(string([]rune(*v.Str)[index]))")]),
 ("C01-1b split('') fills a slice sized by the character count at byte offsets", "C01", "multibyte-text-operations", [
   ("src/prototypes.go", "\t\t\t\t\tsplits := NewValue(strings.Split(*this.Str, *str.Str))",
    "\t\t\t\t\tif *str.Str == \"\" {\n\t\t\t\t\t\tchars := make([]string, len([]rune(*this.Str)))\n\t\t\t\t\t\tfor i, c := range *this.Str {\n\t\t\t\t\t\t\tchars[i] = string(c)\n\t\t\t\t\t\t}\n\t\t\t\t\t\tsplits := NewValue(chars)\n\t\t\t\t\t\treturn &splits, nil\n\t\t\t\t\t}\n\t\t\t\t\tsplits := NewValue(strings.Split(*this.Str, *str.Str))")]),
 ("C01-2a for-in over an array counts up to the length taken at loop entry and indexes the live slice", "C01", "containers-changed-while-walked", [
   ("src/evaluator.go", "\t\t\tfor index, item := range *iterable.Value.Array {\n", "\t\t\tfor index, count := 0, len(*iterable.Value.Array); index < count; index++ {\n\t\t\t\titem := (*iterable.Value.Array)[index]\n")]),
 ("C01-2b for-in over an array follows the live length (never ends when the body pushes)", "C01", "containers-changed-while-walked", [
   ("src/evaluator.go", "\t\t\tfor index, item := range *iterable.Value.Array {\n", "\t\t\tfor index := 0; index < len(*iterable.Value.Array); index++ {\n\t\t\t\titem := (*iterable.Value.Array)[index]\n")]),
 ("C17-a print renders each argument into one line buffer kept on the evaluator as it evaluates them", "C17", "", [
   ("src/evaluator.go", "\tfuzzing        bool\n", "\tfuzzing        bool\n\tlineBuf        []byte\n"),
   ("src/evaluator.go", """		args, err := e.evalExprList(st.Args, false)
		if err != nil {
			return err
		}

		if len(args) == 0 {
			fmt.Fprintln(e.stdout, e.ruleRoot.Value.PrettyString(false))
			return nil
		}

		for i, cell := range args {
			if i > 0 {
				fmt.Fprint(e.stdout, " ")
			}
			if cell == nil {
				fmt.Fprint(e.stdout, "null")
			} else {
				fmt.Fprintf(e.stdout, "%s", cell.Value.PrettyString(false))
			}
		}
		fmt.Fprint(e.stdout, "\\n")
""", """		if len(st.Args) == 0 {
			fmt.Fprintln(e.stdout, e.ruleRoot.Value.PrettyString(false))
			return nil
		}
		e.lineBuf = e.lineBuf[:0]
		for i, arg := range st.Args {
			cell, err := e.evalExpr(arg)
			if err != nil {
				return err
			}
			if i > 0 {
				e.lineBuf = append(e.lineBuf, ' ')
			}
			if cell == nil {
				e.lineBuf = append(e.lineBuf, "null"...)
			} else {
				e.lineBuf = append(e.lineBuf, cell.Value.PrettyString(false)...)
			}
		}
		e.lineBuf = append(e.lineBuf, '\\n')
		e.stdout.Write(e.lineBuf)
""")]),
 ("C17-b every call evaluates its argument list into one slice kept on the evaluator", "C17", "", [
   ("src/evaluator.go", "\tfuzzing        bool\n", "\tfuzzing        bool\n\tcallArgs       []*Cell\n"),
   ("src/evaluator.go", "\t\targs, err := e.evalExprList(exp.Args, true)\n\t\tif err != nil {\n\t\t\treturn nil, err\n\t\t}\n\t\targVals :=",
    "\t\targs := e.callArgs[:0]\n\t\tfor _, a := range exp.Args {\n\t\t\tv, err := e.evalExpr(a)\n\t\t\tif err != nil {\n\t\t\t\treturn nil, err\n\t\t\t}\n\t\t\tc, err := copyValue(v, &Cell{})\n\t\t\tif err != nil {\n\t\t\t\treturn nil, e.error(a.Token(), err.Error())\n\t\t\t}\n\t\t\targs = append(args, c)\n\t\t}\n\t\te.callArgs = args[:0]\n\t\targVals :=")]),
 ("C18-a1 control bytes are folded onto letters before the directive switch (0x13 -> s, 0x06 -> f, 0x16 -> v)", "C18", "", [
   ("src/runtime.go", "\t\tswitch fmtStr[i] {\n\t\tcase '%':", "\t\tdirective := fmtStr[i]\n\t\tif directive < 0x20 {\n\t\t\tdirective |= 0x60\n\t\t}\n\t\tswitch directive {\n\t\tcase '%':")]),
 ("C18-a2 full-width forms of s f v % are accepted as directives", "C18", "", [
   ("src/runtime.go", "\t\tswitch fmtStr[i] {\n\t\tcase '%':", "\t\tdirective := fmtStr[i]\n\t\tif i+2 < end && fmtStr[i] == 0xef && (fmtStr[i+1] == 0xbc || fmtStr[i+1] == 0xbd) {\n\t\t\tr := []rune(fmtStr[i : i+3])[0]\n\t\t\tif r >= 0xff01 && r <= 0xff5e {\n\t\t\t\tdirective = byte(r - 0xfee0)\n\t\t\t\ti += 2\n\t\t\t}\n\t\t}\n\t\tswitch directive {\n\t\tcase '%':")]),
 ("C18-b1 printf text is held until a newline; every print flushes first; the final flush happens only when the run succeeds", "C18", "", [
   ("src/evaluator.go", "\tfuzzing        bool\n", "\tfuzzing        bool\n\tpending        []byte\n"),
   ("src/evaluator.go", "func (e *Evaluator) print(str string) {\n\tfmt.Fprint(e.stdout, str)\n}",
    "func (e *Evaluator) print(str string) {\n\te.pending = append(e.pending, str...)\n\tif len(str) > 0 && str[len(str)-1] == '\\n' {\n\t\te.flush()\n\t}\n}\n\nfunc (e *Evaluator) flush() {\n\tif len(e.pending) > 0 {\n\t\te.stdout.Write(e.pending)\n\t\te.pending = e.pending[:0]\n\t}\n}"),
   ("src/evaluator.go", "\tcase *StatementPrint:\n\t\targs, err := e.evalExprList(st.Args, false)\n\t\tif err != nil {\n\t\t\treturn err\n\t\t}\n",
    "\tcase *StatementPrint:\n\t\targs, err := e.evalExprList(st.Args, false)\n\t\tif err != nil {\n\t\t\treturn err\n\t\t}\n\t\te.flush()\n"),
   ("src/evaluator.go", "FLUSH_AT_END", "")]),
 ("C18-b2 printf text is collected per record and written when the rules of the record are done", "C18", "", [
   ("src/evaluator.go", "\tfuzzing        bool\n", "\tfuzzing        bool\n\tpending        []byte\n"),
   ("src/evaluator.go", "func (e *Evaluator) print(str string) {\n\tfmt.Fprint(e.stdout, str)\n}",
    "func (e *Evaluator) print(str string) {\n\te.pending = append(e.pending, str...)\n}\n\nfunc (e *Evaluator) flush() {\n\tif len(e.pending) > 0 {\n\t\te.stdout.Write(e.pending)\n\t\te.pending = e.pending[:0]\n\t}\n}"),
   ("src/evaluator.go", "FLUSH_PER_RULESET", "")]),
]

def apply(edits):
    for f, old, new in edits:
        path = os.path.join(REPO, f)
        s = open(path).read()
        if old == "FLUSH_AT_END":
            # flush after a successful run only: before every `return ev, nil`-like success return of EvalProgram
            i = s.index("func EvalProgram(")
            head, tail = s[:i], s[i:]
            n = tail.count("\treturn &ev, nil")
            if n == 0:
                raise SystemExit("no success return found in EvalProgram")
            tail = tail.replace("\treturn &ev, nil", "\tev.flush()\n\treturn &ev, nil")
            s = head + tail
        elif old == "FLUSH_PER_RULESET":
            i = s.index("func (e *Evaluator) evalRules(")
            j = s.index("{", i)
            s = s[:j + 1] + "\n\tdefer e.flush()" + s[j + 1:]
            i = s.index("func (e *Evaluator) evalSpecialRule(")
            j = s.index("{", i)
            s = s[:j + 1] + "\n\tdefer e.flush()" + s[j + 1:]
        else:
            if s.count(old) != 1:
                raise SystemExit("edit does not apply uniquely in %s: %r (%d)" % (f, old[:60], s.count(old)))
            s = s.replace(old, new)
        open(path, "w").write(s)

only = sys.argv[1:]
for name, prop, fam, edits in MUTS:
    if only and not any(name.startswith(o) for o in only):
        continue
    print("=====", name)
    sh("git checkout -- .", REPO)
    apply(edits)
    rc, out = sh("go build ./... && go vet ./src/ 2>&1 | tail -3", REPO)
    if rc != 0:
        print("DOES NOT COMPILE\n", out[-1500:])
        sh("git checkout -- .", REPO)
        continue
    rc, out = sh("go test ./... 2>&1 | tail -3", REPO)
    print("jqawk's own tests:", "pass" if "FAIL" not in out and rc == 0 else "FAIL", out.strip().splitlines()[-1][:100])
    rc, out = sh("/tmp/sJ/bin/mut.sh %s %s" % (prop, fam or "-"))
    print(out.strip())
    sh("git checkout -- .", REPO)
