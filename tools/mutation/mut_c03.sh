#!/bin/bash
cd /tmp/famB
./mutate.sh C03 M1-for-d.More '
sub("src/evaluator.go","""		for {
			var rootValue any
			err := d.Decode(&rootValue)
			if err == io.EOF {
				// no more values
				break
			}
""","""		for d.More() {
			var rootValue any
			err := d.Decode(&rootValue)
""")
'
./mutate.sh C03 M2-json-error-swallowed '
sub("src/evaluator.go","""				return &ev, JsonError{err.Error(), file.Name}""","""				return &ev, nil""")
'
./mutate.sh C03 M3-readall-first '
sub("src/evaluator.go","""		d := json.NewDecoder(file.Reader)""","""		allBytes, rerr := io.ReadAll(file.Reader)
		if rerr != nil {
			return &ev, JsonError{rerr.Error(), file.Name}
		}
		d := json.NewDecoder(strings.NewReader(string(allBytes)))""")
'
./mutate.sh C03 M4-wrong-file-name '
sub("src/evaluator.go","""				return &ev, JsonError{err.Error(), file.Name}""","""				return &ev, JsonError{err.Error(), files[0].Name}""")
'
./mutate.sh C03 M5-END-rules-run-after-error '
sub("src/evaluator.go","""				return &ev, JsonError{err.Error(), file.Name}""","""				for _, rule := range ev.endRules {
					ev.ruleRoot = NewCell(NewValue(nil))
					ev.evalSpecialRule(rule)
				}
				return &ev, JsonError{err.Error(), file.Name}""")
'
./mutate.sh C03 M6-truncation-treated-as-end-of-input '
sub("src/evaluator.go","""			if err == io.EOF {
				// no more values
				break
			}""","""			if err == io.EOF || err == io.ErrUnexpectedEOF {
				// no more values
				break
			}""")
'
./mutate.sh C03 M7-one-value-lookahead '
sub("src/evaluator.go","""		d := json.NewDecoder(file.Reader)
		for {
			var rootValue any
			err := d.Decode(&rootValue)
""","""		d := json.NewDecoder(file.Reader)
		var pending any
		havePending := false
		var pendingErr error
		for {
			var rootValue any
			var err error
			if !havePending {
				pendingErr = d.Decode(&pending)
				havePending = true
			}
			rootValue, err = pending, pendingErr
			if err == nil {
				pending = nil
				pendingErr = d.Decode(&pending)
			}
""")
'
./mutate.sh C03 M8-read-error-is-clean-end '
sub("src/evaluator.go","""			if err == io.EOF {
				// no more values
				break
			}""","""			if _, isSyntax := err.(*json.SyntaxError); err != nil && !isSyntax && err != io.ErrUnexpectedEOF {
				// no more values
				break
			}""")
'
./mutate.sh C03 M9-skip-rest-of-file-on-error-continue-with-next-file '
sub("src/evaluator.go","""				return &ev, JsonError{err.Error(), file.Name}""","""				break""")
'
