import sys,re
def sub(path, old, new, count=1, after=None):
    s=open(path).read()
    start=0
    if after:
        start=s.index(after)
    assert old in s[start:], (path, old)
    s=s[:start]+s[start:].replace(old,new,count)
    open(path,'w').write(s)
R='/tmp/sM/repo/src/'
m=sys.argv[1]
if m=='M1a':  # computed method names lose the receiver
    sub(R+'evaluator.go','		if member.Value.Tag == ValueNativeFn {\n			// a method.','		_, litKey := expr.Right.(*ExprLiteral)\n		if (expr.OpToken.Tag == Dot || litKey) && member.Value.Tag == ValueNativeFn {\n			// a method.')
elif m=='M1b': # a bound method held in a variable loses its receiver when called
    sub(R+'evaluator.go','		result, err := fn.Value.NativeFn(e, args, fn.Value.Binding)','		binding := fn.Value.Binding\n		if _, viaName := exp.Func.(*ExprIdentifier); viaName {\n			binding = nil\n		}\n		result, err := fn.Value.NativeFn(e, args, binding)')
elif m=='M1c': # index form on a receiver that is itself an index expression
    sub(R+'evaluator.go','		if member.Value.Tag == ValueNativeFn {\n			// a method.','		lb, leftIsBin := expr.Left.(*ExprBinary)\n		nested := leftIsBin && lb.OpToken.Tag == LSquare && expr.OpToken.Tag == LSquare\n		if !nested && member.Value.Tag == ValueNativeFn {\n			// a method.')
elif m=='M2a': # a copied null keeps its bookkeeping
    sub(R+'evaluator.go','	case ValueNil:\n		to.Value = NewValue(nil)\n','	case ValueNil:\n		to.Value = from.Value\n')
elif m=='M2b': # sort shares the cells
    sub(R+'prototypes.go','clone[i] = &Cell{}\n						copyValue(item, clone[i])','clone[i] = item')
elif m=='M2c': # string arguments are not copied
    sub(R+'evaluator.go','		if copy {\n			newCell, err := copyValue(v, &Cell{})','		if copy && v.Value.Tag != ValueStr {\n			newCell, err := copyValue(v, &Cell{})')
elif m=='M3a': # seeded patch mirrored: arrays un-marked, objects not
    import subprocess
    subprocess.check_call(['git','apply','/tmp/sM/verif/seeded/C16-json-shared-array/patch.diff'],cwd='/tmp/sM/repo')
    sub(R+'value.go','		// done with this object, it may legitimately appear again elsewhere\n		delete(visiting, v.Obj)\n','')
    sub(R+'value.go','		return array, nil','		delete(visiting, v.Array)\n		return array, nil')
elif m=='M3b': # only the direct parent is checked
    sub(R+'value.go','		for _, rootValue := range rootValues {\n			if isSame(rootValue, v) {','		for _, rootValue := range rootValues[len(rootValues)-1:] {\n			if isSame(rootValue, v) {', after='func (v *Value) toGoValueInterval')
elif m=='M3c': # only the three outermost ancestors are checked
    sub(R+'value.go','		for _, rootValue := range rootValues {\n			if isSame(rootValue, v) {','		for i, rootValue := range rootValues {\n			if i >= 3 {\n				break\n			}\n			if isSame(rootValue, v) {', after='func (v *Value) toGoValueInterval')
else:
    sys.exit('unknown '+m)
