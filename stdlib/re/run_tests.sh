#!/bin/sh
# Differential test of the Lean regexp model (Re.lean) against Go 1.23's regexp package.
# Usage: ./run_tests.sh [cases-per-stream-per-seed] [seeds...]     (default 60000, seeds 1 2 3)
set -eu
here=$(cd "$(dirname "$0")" && pwd)
per=${1:-60000}
[ $# -gt 0 ] && shift
seeds=${*:-"1 2 3"}
export GOFLAGS=-mod=mod GOPROXY=off GOSUMDB=off GOTOOLCHAIN=local
export PATH="$PATH:/usr/lib/go-1.23/bin"

work=$(mktemp -d /tmp/retest.XXXXXX)
# Lean project: Re.lean (library) + Main.lean (driver)
mkdir -p "$work/lean" "$work/gen"
cp "$here/Re.lean" "$here/Main.lean" "$work/lean/"
cat > "$work/lean/lakefile.toml" <<'TOML'
name = "ReProj"
defaultTargets = ["retest"]
[[lean_lib]]
name = "Re"
[[lean_exe]]
name = "retest"
root = "Main"
TOML
(cd "$work/lean" && lake build >"$work/lake.log" 2>&1) || { cat "$work/lake.log"; exit 1; }
cp "$here/gen/main.go" "$work/gen/"
printf 'module regen\n\ngo 1.23\n' > "$work/gen/go.mod"
(cd "$work/gen" && go build -o regen .)

total=0; bad=0
for stream in grammar malformed; do
  for seed in $seeds; do
    f="$work/$stream.$seed"
    "$work/gen/regen" -stream "$stream" -seed "$seed" -n "$per" > "$f.go"
    start=$(date +%s.%N)
    cut -d' ' -f1,2 "$f.go" | "$work/lean/.lake/build/bin/retest" > "$f.lean"
    end=$(date +%s.%N)
    cut -d' ' -f3- "$f.go" | paste -d'|' - "$f.lean" "$f.go" > "$f.cmp"
    awk -F'|' -v stream="$stream" -v seed="$seed" -v secs="$(echo "$end - $start" | bc)" '
      { n++ }
      $2 == "unmodelled" { u++; next }
      $1 == "invalid" { inv++ }
      $1 != $2 { bad++; if (bad <= 10) print "MISMATCH go=" $1 " lean=" $2 " case=" $3 > "/dev/stderr" }
      END { printf "%-9s seed %-3s cases %7d  modelled %7d (%.1f%%)  [invalid %d]  mismatches %d  (%.0f cases/s)\n",
                   stream, seed, n, n-u, 100*(n-u)/n, inv, bad, n/secs }' "$f.cmp"
  done
done | tee "$work/summary"
awk '{ for (i = 1; i < NF; i++) if ($i == "mismatches") b += $(i+1)
       c += $5; m += $7; s[$1] += $5; sm[$1] += $7 }
     END { printf "TOTAL cases %d  modelled %d (%.1f%%)  mismatches %d\n", c, m, 100*m/c, b
           for (k in s) { share = 100*sm[k]/s[k]; need = (k == "grammar") ? 70 : 50
             printf "  %-9s modelled share %.1f%% (required >= %d%%) %s\n", k, share, need, (share >= need) ? "OK" : "TOO LOW"
             if (share < need) b++ }
           exit (b > 0) }' "$work/summary"
