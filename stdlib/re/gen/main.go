// Command regen prints test cases for the Lean model of Go's regexp package:
//
//	<hex pattern> <hex subject> <verdict>
//
// where verdict is Go's real answer: "invalid" (regexp.Compile fails) or "ok 0" / "ok 1"
// (MatchString).  An empty byte string is written "-".
//
// -stream grammar:   patterns generated from a grammar covering the modelled subset; subjects are
//                    sampled from the pattern, then mutated, plus random ones (some invalid UTF-8).
// -stream malformed: random strings over a regexp-heavy alphabet, and grammar patterns damaged by
//                    a few random edits.
package main

import (
	"bufio"
	"encoding/hex"
	"flag"
	"fmt"
	"math/rand"
	"os"
	"regexp"
	"strings"
	"unicode/utf8"
)

var rng *rand.Rand

func pick(xs ...string) string { return xs[rng.Intn(len(xs))] }
func chance(p float64) bool    { return rng.Float64() < p }

// node is a generated regexp fragment: its source text and a sampler for a string it matches
// (assertions are ignored by the sampler, so samples do not always match).
type node struct {
	pat    string
	sample func() string
	atomic bool // can take a quantifier without parentheses
}

var litChars = []string{"a", "b", "c", "a", "b", "0", "1", " ", "_", "-", "/", ",", "é", "世", "😀", "\n", "}", "]", "x", "A", "Z", "9", "\t", "\x00", "\u00a0", "\U0010ffff", "\ufffd"}
var punct = `.+*?()|[]{}^$\-,_/ !"#%&':;<=>@~` + "`"
var subjChars = []string{"a", "b", "c", "0", "1", " ", "_", "-", "/", ",", "é", "世", "😀", "\n", "x", "A", "Z", "9", "\t", ".", "]", "{", "}", "\r", "\f", "\v", "\a", "*", "\\", "\xff", "\x80", "\xc3", "\xe4\xb8", "\xed\xa0\x80", "\xf4\x90\x80\x80", "\xc0\xaf", "\ufffd", "\u00a0", "\U0010ffff", "\x00"}

func randSubjChar() string { return subjChars[rng.Intn(len(subjChars))] }

func randSubject(maxLen int) string {
	var sb strings.Builder
	for n := rng.Intn(maxLen + 1); n > 0; n-- {
		sb.WriteString(randSubjChar())
	}
	return sb.String()
}

// sampleWhere returns a random character satisfying ok (tries a few candidates).
func sampleWhere(ok func(r rune) bool) string {
	for i := 0; i < 40; i++ {
		s := randSubjChar()
		r, w := utf8.DecodeRuneInString(s)
		if w == len(s) && ok(r) {
			return s
		}
	}
	return ""
}

func isWord(r rune) bool {
	return r == '_' || '0' <= r && r <= '9' || 'a' <= r && r <= 'z' || 'A' <= r && r <= 'Z'
}
func isSpace(r rune) bool { return r == ' ' || r == '\t' || r == '\n' || r == '\f' || r == '\r' }
func isDigit(r rune) bool { return '0' <= r && r <= '9' }

func perlClass() (string, func(rune) bool) {
	switch rng.Intn(6) {
	case 0:
		return `\d`, isDigit
	case 1:
		return `\w`, isWord
	case 2:
		return `\s`, isSpace
	case 3:
		return `\D`, func(r rune) bool { return !isDigit(r) }
	case 4:
		return `\W`, func(r rune) bool { return !isWord(r) }
	}
	return `\S`, func(r rune) bool { return !isSpace(r) }
}

func genClass() *node {
	var sb strings.Builder
	sb.WriteString("[")
	neg := chance(0.3)
	if neg {
		sb.WriteString("^")
	}
	var preds []func(rune) bool
	single := func(c rune) { preds = append(preds, func(r rune) bool { return r == c }) }
	n := 1 + rng.Intn(4)
	for i := 0; i < n; i++ {
		switch k := rng.Intn(20); {
		case k < 6:
			c := pick("a", "b", "c", "0", "1", " ", "_", "/", ",", "é", "世", "😀", "x", ".", "*", "+", "?", "(", ")", "|", "{", "}", "$", "[", "\ufffd")
			sb.WriteString(c)
			r, _ := utf8.DecodeRuneInString(c)
			single(r)
		case k < 10:
			rs := pick("a-c", "0-9", "a-z", "A-Z", "é-世", "\x00-\uffff", " -/", "b-b", "+--", "!-~", "\\n-\\r", "\\[-\\]", "a-\\}", "\x00-\U0010ffff")
			sb.WriteString(rs)
			lo, hi := classRangeEnds(rs)
			preds = append(preds, func(r rune) bool { return lo <= r && r <= hi })
		case k < 13:
			p, f := perlClass()
			sb.WriteString(p)
			preds = append(preds, f)
		case k < 15:
			e := pick(`\]`, `\\`, `\-`, `\n`, `\t`, `\r`, `\f`, `\v`, `\a`, `\.`, `\^`, `\[`)
			sb.WriteString(e)
			single(unescape(e))
		case k == 15 && i == 0:
			sb.WriteString("]")
			single(']')
		case k == 16 && (i == 0 || i == n-1):
			sb.WriteString("-")
			single('-')
		case k == 17 && i > 0:
			sb.WriteString("^")
			single('^')
		case k == 18:
			sb.WriteString(pick("z-a", "a-\\d", "\\d-a", "a--", "--a", "\\b", "\\8", "[:", "\\pL", "\\x41", "\\101", "\\1", "\\0", "\\é", "\\_"))
		default:
			sb.WriteString("a")
			single('a')
		}
	}
	if !chance(0.02) {
		sb.WriteString("]")
	}
	return &node{pat: sb.String(), atomic: true, sample: func() string {
		return sampleWhere(func(r rune) bool {
			in := false
			for _, p := range preds {
				in = in || p(r)
			}
			return in != neg
		})
	}}
}

func unescape(e string) rune {
	switch e[1] {
	case 'n':
		return '\n'
	case 't':
		return '\t'
	case 'r':
		return '\r'
	case 'f':
		return '\f'
	case 'v':
		return '\v'
	case 'a':
		return '\a'
	}
	r, _ := utf8.DecodeRuneInString(e[1:])
	return r
}

func classRangeEnds(rs string) (rune, rune) {
	next := func(s string) (rune, string) {
		if s[0] == '\\' {
			return unescape(s[:2]), s[2:]
		}
		r, w := utf8.DecodeRuneInString(s)
		return r, s[w:]
	}
	lo, rest := next(rs)
	hi, _ := next(rest[1:])
	return lo, hi
}

func genAtom() *node {
	switch k := rng.Intn(40); {
	case k < 14:
		c := litChars[rng.Intn(len(litChars))]
		return &node{pat: c, atomic: true, sample: func() string { return c }}
	case k < 17:
		return &node{pat: ".", atomic: true, sample: func() string { return sampleWhere(func(r rune) bool { return r != '\n' }) }}
	case k < 22:
		return genClass()
	case k < 26:
		p, f := perlClass()
		return &node{pat: p, atomic: true, sample: func() string { return sampleWhere(f) }}
	case k < 29:
		c := string(punct[rng.Intn(len(punct))])
		return &node{pat: `\` + c, atomic: true, sample: func() string { return c }}
	case k < 31:
		e := pick(`\n`, `\t`, `\r`, `\f`, `\v`, `\a`)
		return &node{pat: e, atomic: true, sample: func() string { return string(unescape(e)) }}
	case k < 36:
		return &node{pat: pick("^", "$", `\b`, `\B`, "^", "$"), atomic: true, sample: func() string { return "" }}
	case k < 37:
		// literal braces and commas that do not form a repetition
		s := pick("{", "{,2}", "{a}", "{1", "{1,", "{1,2", "{01}", "{}", "{-1}", "{1,a}", "{ 1}")
		return &node{pat: s, atomic: false, sample: func() string { return s }}
	case k < 38:
		// constructs outside the subset, and invalid escapes
		s := pick("(?i)", "(?s)", "(?m)", "(?U)", "(?P<n>a)", "(?<n>a)", `\pL`, `\PL`, `\p{Greek}`, "[[:alpha:]]", `\x41`, `\x{41}`, `\101`, `\0`, `\Qa.b\E`, `\A`, `\z`, `\C`, `\8`, `\e`, `\1`, `\é`, `\E`, "(?i:a)", "(?-s)", "(?", "(?a", "(?P", "(?)")
		return &node{pat: s, atomic: false, sample: func() string { return "a" }}
	default:
		return &node{pat: "", atomic: false, sample: func() string { return "" }}
	}
}

func quantifier() (string, int, int) {
	lazy := ""
	if chance(0.2) {
		lazy = "?"
	}
	switch k := rng.Intn(20); {
	case k < 4:
		return "*" + lazy, 0, -1
	case k < 8:
		return "+" + lazy, 1, -1
	case k < 12:
		return "?" + lazy, 0, 1
	}
	nums := []int{0, 1, 2, 3, 2, 3, 4, 5, 10, 31, 32, 33, 100, 250, 500, 1000, 1001, 99999, 12345678901}
	small := rng.Intn(5)
	n := nums[rng.Intn(len(nums))]
	if chance(0.75) {
		n = small
	}
	switch rng.Intn(4) {
	case 0:
		return fmt.Sprintf("{%d}%s", n, lazy), n, n
	case 1:
		return fmt.Sprintf("{%d,}%s", n, lazy), n, -1
	}
	m := n + rng.Intn(4)
	if chance(0.1) {
		m = nums[rng.Intn(len(nums))]
	}
	return fmt.Sprintf("{%d,%d}%s", n, m, lazy), n, m
}

func gen(depth int) *node {
	if depth <= 0 {
		return genAtom()
	}
	switch k := rng.Intn(20); {
	case k < 4:
		return genAtom()
	case k < 9: // concatenation
		n := 2 + rng.Intn(3)
		kids := make([]*node, n)
		var sb strings.Builder
		for i := range kids {
			kids[i] = gen(depth - 1)
			sb.WriteString(kids[i].pat)
		}
		return &node{pat: sb.String(), sample: func() string {
			var sb strings.Builder
			for _, k := range kids {
				sb.WriteString(k.sample())
			}
			return sb.String()
		}}
	case k < 12: // alternation, wrapped in a group most of the time
		n := 2 + rng.Intn(2)
		kids := make([]*node, n)
		pats := make([]string, n)
		for i := range kids {
			kids[i] = gen(depth - 1)
			pats[i] = kids[i].pat
		}
		p := strings.Join(pats, "|")
		atomic := false
		if chance(0.8) {
			p, atomic = pick("(", "(?:")+p+")", true
		}
		return &node{pat: p, atomic: atomic, sample: func() string { return kids[rng.Intn(n)].sample() }}
	case k < 13 && chance(0.15): // nested counted repetitions around the limit of 1000 copies
		kid := genAtom()
		counts := []string{"0", "1", "2", "3", "5", "10", "31", "32", "33", "100", "333", "334", "500", "1000", "0,", "2,", "0,1", "0,2", "1,3", "10,", "0,0"}
		p := kid.pat
		if !kid.atomic {
			p = "(?:" + p + ")"
		}
		for n := 2 + rng.Intn(2); n > 0; n-- {
			p = pick("(", "(?:", "(?:x|", "(") + p + "{" + counts[rng.Intn(len(counts))] + "}" + pick("", "", "", "?", "y") + ")" + pick("", "", "*", "?", "+")
		}
		p += "{" + counts[rng.Intn(len(counts))] + "}"
		return &node{pat: p, atomic: false, sample: func() string { return kid.sample() + kid.sample() }}
	case k < 15: // group
		kid := gen(depth - 1)
		open, close := pick("(", "(?:"), ")"
		if chance(0.02) {
			open = pick("", "((", "(?")
		} else if chance(0.02) {
			close = pick("", "))")
		}
		return &node{pat: open + kid.pat + close, atomic: true, sample: kid.sample}
	default: // quantified
		kid := gen(depth - 1)
		q, min, max := quantifier()
		p := kid.pat
		if !kid.atomic && !chance(0.05) {
			p = pick("(", "(?:") + p + ")"
		}
		return &node{pat: p + q, atomic: chance(0.03), sample: func() string {
			n := min + rng.Intn(3)
			if chance(0.2) {
				n = min + rng.Intn(9)
			}
			if max >= 0 && n > max {
				n = max
			}
			if n > 40 {
				n = 40
			}
			var sb strings.Builder
			for i := 0; i < n && sb.Len() < 64; i++ {
				sb.WriteString(kid.sample())
			}
			return sb.String()
		}}
	}
}

func runes(s string) []string {
	var out []string
	for len(s) > 0 {
		_, w := utf8.DecodeRuneInString(s)
		out = append(out, s[:w])
		s = s[w:]
	}
	return out
}

// mutate applies a random edit (delete, insert, replace, swap) drawn from the given alphabet.
func mutate(s string, alphabet func() string) string {
	rs := runes(s)
	i := 0
	if len(rs) > 0 {
		i = rng.Intn(len(rs))
	}
	switch k := rng.Intn(4); {
	case k == 0 && len(rs) > 0:
		rs = append(rs[:i:i], rs[i+1:]...)
	case k == 1 && len(rs) > 0:
		rs[i] = alphabet()
	case k == 2 && len(rs) > 1:
		j := rng.Intn(len(rs))
		rs[i], rs[j] = rs[j], rs[i]
	default:
		rs = append(rs[:i:i], append([]string{alphabet()}, rs[i:]...)...)
	}
	return strings.Join(rs, "")
}

var malAlphabet = runes("ab01.*+?|()[]{}^$\\-,dwsDWSbB/ " + "ab01.*+?|()[]{}^$\\-,dwsDWSbB/ " + "ab01.*+?|()[]{}^$\\-,dwsDWSbB/ " + "é世😀:PQEAzCxpi<>_n2\n")

func malChar() string { return malAlphabet[rng.Intn(len(malAlphabet))] }

func malformedPattern() string {
	switch k := rng.Intn(10); {
	case k < 6:
		var sb strings.Builder
		for n := 1 + rng.Intn(10); n > 0; n-- {
			sb.WriteString(malChar())
		}
		return sb.String()
	case k < 9:
		p := gen(2).pat
		for n := 1 + rng.Intn(2); n > 0; n-- {
			p = mutate(p, malChar)
		}
		return p
	default:
		// byte-level damage: may produce invalid UTF-8 in the pattern
		p := gen(2).pat + malChar()
		i := rng.Intn(len(p))
		return p[:i] + pick("\xff", "\x80", "\xc3", "") + p[i+1:]
	}
}

func clip(s string) string {
	if len(s) > 48 {
		s = s[:48]
	}
	return s
}

func hexOf(s string) string {
	if s == "" {
		return "-"
	}
	return hex.EncodeToString([]byte(s))
}

func main() {
	seed := flag.Int64("seed", 1, "random seed")
	n := flag.Int("n", 1000, "number of cases")
	stream := flag.String("stream", "grammar", "grammar | malformed")
	flag.Parse()
	rng = rand.New(rand.NewSource(*seed))
	w := bufio.NewWriterSize(os.Stdout, 1<<20)
	defer w.Flush()

	for count := 0; count < *n; {
		var pat string
		sample := func() string { return "" }
		if *stream == "grammar" {
			nd := gen(rng.Intn(4))
			pat, sample = nd.pat, nd.sample
			switch rng.Intn(8) { // whole-string matches discriminate much better
			case 0:
				pat = "^(?:" + pat + ")$"
			case 1:
				pat = "^" + pat + "$"
			case 2:
				pat = "^(" + pat + ")"
			case 3:
				pat = "(" + pat + ")$"
			}
		} else {
			pat = malformedPattern()
			// subjects built from the pattern's own characters have a fair chance to match
			sample = func() string {
				rs := runes(pat)
				var sb strings.Builder
				for _, r := range rs {
					if !strings.Contains(`*+?|()[]{}^$\`, r) || chance(0.1) {
						sb.WriteString(r)
					}
				}
				return sb.String()
			}
		}
		re, err := regexp.Compile(pat)
		subjects := 4
		if err != nil {
			subjects = 1
		}
		for j := 0; j < subjects && count < *n; j++ {
			var s string
			switch j {
			case 0:
				s = sample()
			case 1:
				s = mutate(sample(), randSubjChar)
				if chance(0.3) {
					s = mutate(s, randSubjChar)
				}
			case 2:
				s = randSubject(3) + sample() + randSubject(3)
			default:
				s = randSubject(12)
			}
			s = clip(s)
			verdict := "invalid"
			if err == nil {
				verdict = "ok 0"
				if re.MatchString(s) {
					verdict = "ok 1"
				}
			}
			fmt.Fprintf(w, "%s %s %s\n", hexOf(pat), hexOf(s), verdict)
			count++
		}
	}
}
