module regen

go 1.23
