import Re
open Jqawk Jqawk.Re

/-- Line protocol: `<hex pattern> <hex subject>` → `ok 1 | ok 0 | invalid | unmodelled`.
An empty byte string is written `-`. -/
def hexVal (c : Char) : Nat :=
  if c.isDigit then c.toNat - 48 else if 'a' ≤ c && c ≤ 'f' then c.toNat - 87 else c.toNat - 55

def unhex : List Char → Bytes
  | a :: b :: rest => (hexVal a * 16 + hexVal b).toUInt8 :: unhex rest
  | _ => []

def verdict (pat subj : Bytes) : String :=
  match compile pat with
  | .ok r => if Re.matches r subj then "ok 1" else "ok 0"
  | .invalid => "invalid"
  | .unmodelled => "unmodelled"

def main : IO Unit := do
  let stdin ← IO.getStdin
  let stdout ← IO.getStdout
  repeat
    let line ← stdin.getLine
    if line.isEmpty then break
    match line.trimAscii.toString.splitOn " " with
    | [p, s] => stdout.putStrLn (verdict (unhex p.toList) (unhex s.toList))
    | _ => stdout.putStrLn "badline"
  stdout.flush
