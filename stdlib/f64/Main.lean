import F64
/-! Test driver: reads `op args… expected` lines (as printed by gen/main.go) from stdin and prints
    the same line with the result recomputed by the Lean model in place of `expected`. -/
open Jqawk

def hexVal (c : Char) : Nat :=
  if '0' ≤ c ∧ c ≤ '9' then c.toNat - 48
  else if 'a' ≤ c ∧ c ≤ 'f' then c.toNat - 87
  else if 'A' ≤ c ∧ c ≤ 'F' then c.toNat - 55 else 0

def hexNat (s : String) : Nat := s.toList.foldl (fun a c => a * 16 + hexVal c) 0
def f64Of (s : String) : F64 := F64.ofBits (UInt64.ofNat (hexNat s))

def hexDigit (n : Nat) : Char := if n < 10 then Char.ofNat (48 + n) else Char.ofNat (87 + n)
def hex64 (x : F64) : String :=
  String.ofList ((List.range 16).map (fun i => hexDigit ((x.bits.toNat >>> (4 * (15 - i))) % 16)))
/-- byte strings travel as "x" ++ hex -/
def bytesOf (s : String) : Bytes :=
  let rec go : List Char → Bytes
    | a :: b :: r => (hexVal a * 16 + hexVal b).toUInt8 :: go r
    | _ => []
  go (s.toList.drop 1)
def hexBytes (b : Bytes) : String :=
  String.ofList ('x' :: b.flatMap (fun c => [hexDigit (c.toNat / 16), hexDigit (c.toNat % 16)]))

def showF (x : F64) : String := if x.isNaN then "nan" else hex64 x
def showB (b : Bool) : String := if b then "1" else "0"

def run (f : List String) : String :=
  match f with
  | ["add", a, b, _] => showF (F64.add (f64Of a) (f64Of b))
  | ["sub", a, b, _] => showF (F64.sub (f64Of a) (f64Of b))
  | ["mul", a, b, _] => showF (F64.mul (f64Of a) (f64Of b))
  | ["div", a, b, _] => showF (F64.div (f64Of a) (f64Of b))
  | ["lt", a, b, _] => showB (F64.lt (f64Of a) (f64Of b))
  | ["le", a, b, _] => showB (F64.le (f64Of a) (f64Of b))
  | ["eq", a, b, _] => showB (F64.eq (f64Of a) (f64Of b))
  | ["neg", a, _] => hex64 (F64.neg (f64Of a))
  | ["ofInt", n, _] => hex64 (F64.ofInt n.toInt!)
  | ["ofNat", n, _] => hex64 (F64.ofNat n.toNat!)
  | ["toGoInt", a, _] => toString (F64.toGoInt (f64Of a))
  | ["floor", a, _] => showF (F64.floor (f64Of a))
  | ["ceil", a, _] => showF (F64.ceil (f64Of a))
  | ["round", a, _] => showF (F64.round (f64Of a))
  | ["format", a, _] => hexBytes (F64.format (f64Of a))
  | ["json", a, _] => match F64.jsonFormat (f64Of a) with
    | some b => hexBytes b
    | none => "none"
  | [op, s, _] =>
    if op == "parse" || op == "parseX" then
      let b := bytesOf s
      let r := match F64.parseFull b with
        | .ok x => "ok:" ++ hex64 x
        | .range => "range"
        | .syntax => "syntax"
      let p := match F64.parse b, F64.parseFull b with     -- `parse` agrees with `parseFull`
        | some x, .ok y => if x == y then "" else "!parse"
        | none, .ok _ => "!parse"
        | some _, _ => "!parse"
        | none, _ => ""
      -- outside `goParseExact` (op parseX) Go itself may be wrong
      r ++ p ++ (if F64.goParseExact b == (op == "parse") then "" else "!domain")
    else "?"
  | _ => "?"

partial def loop (i o : IO.FS.Stream) : IO Unit := do
  let line ← i.getLine
  if line.isEmpty then return
  let f := (line.trimAscii.toString).splitOn " "
  o.putStrLn (" ".intercalate (f.dropLast ++ [run f]))
  loop i o

def main : IO Unit := do
  let i ← IO.getStdin
  let o ← IO.getStdout
  loop i o
