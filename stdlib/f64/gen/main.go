// Test generator: prints "op args... expected" lines with Go's own results.
// usage: gen SEED COUNT
// Floats are the 16-digit hex of math.Float64bits ("nan" for a NaN result of an arithmetic op),
// byte strings are "x" + hex.
package main

import (
	"bufio"
	"encoding/hex"
	"encoding/json"
	"errors"
	"fmt"
	"math"
	"math/big"
	"math/rand"
	"os"
	"strconv"
	"strings"
)

var rng *rand.Rand
var out *bufio.Writer

//go:noinline
func toInt(x float64) int { return int(x) }

//go:noinline
func fromInt(n int64) float64 { return float64(n) }

//go:noinline
func fromUint(n uint64) float64 { return float64(n) }

//go:noinline
func negate(x float64) float64 { return -x }

func fb(b uint64) float64 { return math.Float64frombits(b) }
func hx(x float64) string  { return fmt.Sprintf("%016x", math.Float64bits(x)) }
func res(x float64) string {
	if math.IsNaN(x) {
		return "nan"
	}
	return hx(x)
}
func xs(s string) string { return "x" + hex.EncodeToString([]byte(s)) }
func b2s(b bool) string {
	if b {
		return "1"
	}
	return "0"
}

var specials = []uint64{
	0, 1 << 63, 0x7FF0000000000000, 0xFFF0000000000000, 0x7FF8000000000001, 0xFFF8000000000000, 0x7FF0000000000001,
	1, 2, 0x000FFFFFFFFFFFFF, 0x0010000000000000, 0x0010000000000001, 0x7FEFFFFFFFFFFFFF, 0x7FEFFFFFFFFFFFFE,
	0x3FF0000000000000, 0x3FE0000000000000, 0xBFE0000000000000, 0x3FEFFFFFFFFFFFFF, 0x3FF0000000000001,
	0x4340000000000000, 0x433FFFFFFFFFFFFF, 0x4340000000000001, 0x43E0000000000000, 0xC3E0000000000000,
	0x43DFFFFFFFFFFFFF, 0xC3E0000000000001, 0x43F0000000000000, 0x3FDFFFFFFFFFFFFF, 0x3FE0000000000001,
	0x4330000000000000, 0x4330000000000001, 0x432FFFFFFFFFFFFF, 0x3EB0C6F7A0B5ED8D, 0x444B1AE4D6E2EF50,
}

// a float from a mix of interesting classes
func randF() float64 {
	switch rng.Intn(14) {
	case 0, 1, 2:
		return fb(rng.Uint64())
	case 3:
		return float64(rng.Intn(41) - 20)
	case 4:
		return float64(rng.Intn(2001)-1000) + 0.5
	case 5: // power of two +- few ulp
		x := math.Ldexp(1, rng.Intn(2140)-1074)
		b := math.Float64bits(x) + uint64(rng.Intn(5)) - 2
		if rng.Intn(2) == 0 {
			b |= 1 << 63
		}
		return fb(b)
	case 6: // subnormal
		b := rng.Uint64() >> (12 + uint(rng.Intn(52)))
		if rng.Intn(2) == 0 {
			b |= 1 << 63
		}
		return fb(b)
	case 7:
		return fb(specials[rng.Intn(len(specials))])
	case 8: // short decimal
		v := float64(rng.Intn(100000)) / math.Pow(10, float64(rng.Intn(8)))
		if rng.Intn(3) == 0 {
			v = -v
		}
		return v
	case 9: // moderate exponent, random mantissa
		b := rng.Uint64()&0x800FFFFFFFFFFFFF | uint64(1023-70+rng.Intn(140))<<52
		return fb(b)
	case 10: // integers around 2^53, 2^63
		base := []float64{1 << 53, 1 << 52, 1 << 63, 1 << 62, 1 << 31, 1 << 32, 1 << 64}[rng.Intn(7)]
		v := base + float64(rng.Intn(9)-4)
		if rng.Intn(2) == 0 {
			v = -v
		}
		return v
	case 11: // few significant bits
		m := uint64(rng.Intn(64)) << uint(46)
		return fb(m&0x000FFFFFFFFFFFFF | uint64(rng.Intn(2047))<<52 | uint64(rng.Intn(2))<<63)
	case 12: // random digits times power of ten
		v, _ := strconv.ParseFloat(fmt.Sprintf("%de%d", rng.Int63n(1e17), rng.Intn(640)-330), 64)
		return v
	default: // close to int64 / 1e21 / 1e-6 boundaries
		c := []float64{1e21, 1e-6, 1e-7, 1e20, 9.223372036854775807e18, 1e22, 1e23, 123456789012345680000, 5e-324, 1.7976931348623157e308}[rng.Intn(10)]
		b := math.Float64bits(c) + uint64(rng.Intn(5)) - 2
		if rng.Intn(2) == 0 {
			b |= 1 << 63
		}
		return fb(b)
	}
}

// second operand, often related to the first one
func related(x float64) float64 {
	b := math.Float64bits(x)
	switch rng.Intn(10) {
	case 0:
		return -x
	case 1:
		return fb(b + uint64(rng.Intn(7)) - 3)
	case 2:
		return fb((b + uint64(rng.Intn(7)) - 3) ^ (1 << 63))
	case 3: // same exponent, other mantissa
		return fb(b&0xFFF0000000000000 | rng.Uint64()&0x000FFFFFFFFFFFFF)
	case 4: // nearby exponent
		e := int(b>>52&0x7FF) + rng.Intn(120) - 60
		if e < 0 {
			e = 0
		}
		if e > 2046 {
			e = 2046
		}
		return fb(rng.Uint64()&0x800FFFFFFFFFFFFF | uint64(e)<<52)
	case 5: // reciprocal-ish exponent (products / quotients near the subnormal or overflow edge)
		e := 2046 - int(b>>52&0x7FF) + rng.Intn(9) - 4 + []int{0, -1023, 1023, -1070, -1076}[rng.Intn(5)]
		if e < 0 {
			e = 0
		}
		if e > 2046 {
			e = 2046
		}
		return fb(rng.Uint64()&0x800FFFFFFFFFFFFF | uint64(e)<<52)
	default:
		return randF()
	}
}

func emit(f string, a ...interface{}) { fmt.Fprintf(out, f+"\n", a...) }

func genArith() {
	x := randF()
	y := related(x)
	switch rng.Intn(4) {
	case 0:
		emit("add %s %s %s", hx(x), hx(y), res(x+y))
	case 1:
		emit("sub %s %s %s", hx(x), hx(y), res(x-y))
	case 2:
		emit("mul %s %s %s", hx(x), hx(y), res(x*y))
	default:
		emit("div %s %s %s", hx(x), hx(y), res(x/y))
	}
}

func genCmp() {
	x := randF()
	y := related(x)
	switch rng.Intn(7) {
	case 0, 1:
		emit("lt %s %s %s", hx(x), hx(y), b2s(x < y))
	case 2, 3:
		emit("le %s %s %s", hx(x), hx(y), b2s(x <= y))
	case 4, 5:
		emit("eq %s %s %s", hx(x), hx(y), b2s(x == y))
	default:
		emit("neg %s %s", hx(x), hx(negate(x)))
	}
}

func genOfInt() {
	var n int64
	switch rng.Intn(6) {
	case 0:
		n = int64(rng.Uint64())
	case 1:
		n = int64(rng.Intn(2001) - 1000)
	case 2:
		n = int64(1)<<uint(rng.Intn(63)) + int64(rng.Intn(9)-4)
	case 3:
		n = int64(rng.Uint64() >> uint(rng.Intn(64)))
	case 4:
		n = []int64{math.MaxInt64, math.MinInt64, math.MaxInt64 - 1, math.MinInt64 + 1, 1<<53 + 1, 1<<53 - 1, 1<<54 + 2, 1<<54 + 6, 0,
			1<<62 + 1<<9, 1<<62 + 1<<8, 1<<62 + 3<<8, math.MaxInt64 - 511, math.MaxInt64 - 512}[rng.Intn(14)]
	default: // halfway patterns above 2^53
		sh := uint(1 + rng.Intn(10))
		n = (int64(1)<<52+rng.Int63n(1<<52))<<sh + int64(1)<<(sh-1) + int64(rng.Intn(3)-1)
	}
	if rng.Intn(2) == 0 && n != math.MinInt64 {
		n = -n
	}
	if rng.Intn(5) == 0 {
		u := uint64(n)
		emit("ofNat %d %s", u, hx(fromUint(u)))
		return
	}
	emit("ofInt %d %s", n, hx(fromInt(n)))
}

func genToInt() {
	var x float64
	switch rng.Intn(5) {
	case 0:
		x = randF()
	case 1:
		x = (rng.Float64() - 0.5) * math.Ldexp(1, rng.Intn(70))
	case 2:
		x = fb(math.Float64bits(9.223372036854775807e18)+uint64(rng.Intn(5))-2) * float64(1-2*rng.Intn(2))
	case 3:
		x = float64(rng.Intn(41)-20) + rng.Float64()*float64(1-2*rng.Intn(2))
	default:
		x = fb(specials[rng.Intn(len(specials))])
	}
	emit("toGoInt %s %d", hx(x), toInt(x))
}

func genRound() {
	var x float64
	switch rng.Intn(6) {
	case 0:
		x = randF()
	case 1:
		x = float64(rng.Intn(41)-20) + 0.5
	case 2:
		x = float64(rng.Intn(2001)-1000) / 4
	case 3: // near a half, +-ulp
		x = fb(math.Float64bits(float64(rng.Intn(1<<uint(rng.Intn(53))))+0.5) + uint64(rng.Intn(3)) - 1)
		if rng.Intn(2) == 0 {
			x = -x
		}
	case 4:
		x = (rng.Float64() - 0.5) * math.Ldexp(1, rng.Intn(56))
	default:
		x = []float64{-0.5, 0.5, -0.25, 0.49999999999999994, -0.49999999999999994, 4503599627370495.5, -4503599627370495.5,
			4503599627370496.5, 9007199254740991, 5e-324, -5e-324, math.Copysign(0, -1), 0, 1.5, 2.5, -1.5, -2.5, 0.9999999999999999}[rng.Intn(18)]
	}
	switch rng.Intn(3) {
	case 0:
		emit("floor %s %s", hx(x), res(math.Floor(x)))
	case 1:
		emit("ceil %s %s", hx(x), res(math.Ceil(x)))
	default:
		emit("round %s %s", hx(x), res(math.Round(x)))
	}
}

func fmtVal() float64 {
	switch rng.Intn(8) {
	case 0: // 17-digit cases
		v, _ := strconv.ParseFloat(fmt.Sprintf("%d.%016d", 1+rng.Intn(9), rng.Int63n(1e16)), 64)
		return v * math.Pow(10, float64(rng.Intn(40)-20))
	case 1:
		return float64(rng.Int63n(1 << 62))
	case 2:
		return float64(rng.Intn(1000000)) / 1000
	default:
		return randF()
	}
}

func genFormat() {
	x := fmtVal()
	emit("format %s %s", hx(x), xs(strconv.FormatFloat(x, 'f', -1, 64)))
}

func genJSON() {
	x := fmtVal()
	if rng.Intn(4) == 0 { // around the 'e' cutoffs
		x = math.Pow(10, float64(rng.Intn(40)-12)) * []float64{1, 1, 1.5, 9.999999999999999, 0.1, 123456.789}[rng.Intn(6)]
		if rng.Intn(3) == 0 {
			x = -x
		}
	}
	b, err := json.Marshal(x)
	if err != nil {
		emit("json %s none", hx(x))
	} else {
		emit("json %s %s", hx(x), xs(string(b)))
	}
}

func parseLine(s string) {
	v, err := strconv.ParseFloat(s, 64)
	r := "ok:" + hx(v)
	if err != nil {
		if errors.Is(err, strconv.ErrRange) {
			r = "range"
		} else if errors.Is(err, strconv.ErrSyntax) {
			r = "syntax"
		} else {
			r = "other"
		}
	}
	op := "parse"
	if longInteger(s) {
		op = "parseX" // Go itself is wrong here when its fast paths fail (decimal.set caps dp at 800)
	}
	emit("%s %s %s", op, xs(s), r)
}

// more than 800 significant decimal digits before the point / exponent
func longInteger(s string) bool {
	if len(s) > 0 && (s[0] == '+' || s[0] == '-') {
		s = s[1:]
	}
	if len(s) > 2 && s[0] == '0' && (s[1] == 'x' || s[1] == 'X') {
		return false
	}
	n := 0
	for i := 0; i < len(s); i++ {
		c := s[i]
		if c == '_' || c == '0' && n == 0 {
			continue
		}
		if c < '0' || c > '9' {
			break
		}
		n++
	}
	return n > 800
}

// exact decimal string of mant * 2^exp
func exactDec(mant *big.Int, exp int) string {
	if exp >= 0 {
		return new(big.Int).Lsh(mant, uint(exp)).String()
	}
	k := -exp
	n := new(big.Int).Mul(mant, new(big.Int).Exp(big.NewInt(5), big.NewInt(int64(k)), nil))
	s := n.String()
	if len(s) <= k {
		s = strings.Repeat("0", k-len(s)+1) + s
	}
	return s[:len(s)-k] + "." + s[len(s)-k:]
}

// exact midpoint between a random positive finite double and its successor
func halfway() string {
	var b uint64
	switch rng.Intn(4) {
	case 0:
		b = rng.Uint64() >> (12 + uint(rng.Intn(52))) // subnormal
	case 1:
		b = rng.Uint64()&0x000FFFFFFFFFFFFF | uint64(1023-60+rng.Intn(120))<<52
	case 2:
		b = 0x7FEFFFFFFFFFFFFF - uint64(rng.Intn(3)) // top: midpoint to "2^1024"
	default:
		b = rng.Uint64() & 0x7FFFFFFFFFFFFFFF
	}
	if b >= 0x7FF0000000000000 {
		b = 0x7FEFFFFFFFFFFFFF
	}
	e := int(b >> 52)
	m := b & 0x000FFFFFFFFFFFFF
	if e == 0 {
		e = 1
	} else {
		m |= 1 << 52
	}
	// value = m * 2^(e-1075); midpoint = (2m+1) * 2^(e-1076)
	return exactDec(new(big.Int).SetUint64(2*m+1), e-1076)
}

// move the decimal point of a plain decimal string into an exponent
func sci(s string) string {
	dot := strings.IndexByte(s, '.')
	digits, frac := s, 0
	if dot >= 0 {
		digits = s[:dot] + s[dot+1:]
		frac = len(s) - dot - 1
	}
	digits = strings.TrimLeft(digits, "0")
	if digits == "" {
		digits = "0"
	}
	pos := 1 + rng.Intn(min(len(digits), 800))
	if rng.Intn(2) == 0 {
		pos = 1
	}
	e := len(digits) - pos - frac
	r := digits[:pos]
	if pos < len(digits) {
		r += "." + digits[pos:]
	}
	return r + []string{"e", "E", "e+", "e0"}[boolIdx(e >= 0)*rng.Intn(4)] + strconv.Itoa(e)
}

func boolIdx(b bool) int {
	if b {
		return 1
	}
	return 0
}

func perturb(s string) string {
	switch rng.Intn(6) {
	case 0: // just above
		if !strings.Contains(s, ".") {
			s += "."
		}
		return s + strings.Repeat("0", rng.Intn(30)) + "1"
	case 1: // far beyond Go's 800-digit decimal buffer
		if !strings.Contains(s, ".") {
			s += "."
		}
		return s + strings.Repeat("0", 700+rng.Intn(400)) + strconv.Itoa(1+rng.Intn(9))
	case 2: // just below: ...5 -> ...4999
		if strings.HasSuffix(s, "5") && strings.Contains(s, ".") {
			return s[:len(s)-1] + "4" + strings.Repeat("9", 1+rng.Intn(40))
		}
		return s
	case 3: // trailing zeros only (still exactly halfway)
		if !strings.Contains(s, ".") {
			s += "."
		}
		return s + strings.Repeat("0", rng.Intn(900))
	default:
		return s
	}
}

func randDigits(n int) string {
	var sb strings.Builder
	for i := 0; i < n; i++ {
		sb.WriteByte(byte('0' + rng.Intn(10)))
	}
	return sb.String()
}

func hexFloat() string {
	const hd = "0123456789abcdefABCDEF"
	var sb strings.Builder
	sb.WriteString([]string{"", "", "-", "+"}[rng.Intn(4)])
	sb.WriteString([]string{"0x", "0X"}[rng.Intn(2)])
	n := 1 + rng.Intn(20)
	if rng.Intn(8) == 0 {
		n = 1 + rng.Intn(3)
	}
	dot := rng.Intn(n + 2)
	for i := 0; i < n; i++ {
		if i == dot {
			sb.WriteByte('.')
		}
		c := hd[rng.Intn(len(hd))]
		if rng.Intn(6) == 0 {
			c = '0'
		}
		sb.WriteByte(c)
	}
	if dot == n {
		sb.WriteByte('.')
	}
	if rng.Intn(30) != 0 {
		sb.WriteString([]string{"p", "P"}[rng.Intn(2)])
		sb.WriteString([]string{"", "+", "-"}[rng.Intn(3)])
		switch rng.Intn(5) {
		case 0:
			sb.WriteString(strconv.Itoa(rng.Intn(10)))
		case 1:
			sb.WriteString(strconv.Itoa(1000 + rng.Intn(160)))
		case 2:
			sb.WriteString(strconv.Itoa(rng.Intn(1200)))
		case 3:
			sb.WriteString(strconv.Itoa(rng.Intn(200000)))
		default:
			sb.WriteString(strconv.Itoa(900 + rng.Intn(300)))
		}
	}
	return sb.String()
}

// a hex float written exactly from a double, optionally with extra low digits (rounding / sticky bit)
func hexOf() string {
	x := math.Abs(fb(rng.Uint64()))
	if math.IsNaN(x) || math.IsInf(x, 0) {
		x = 1.5
	}
	if rng.Intn(3) == 0 {
		x = fb(rng.Uint64() >> (12 + uint(rng.Intn(52))))
	}
	s := strconv.FormatFloat(x, 'x', -1, 64) // 0x1.xxxxp+NN
	p := strings.IndexByte(s, 'p')
	m, e := s[:p], s[p:]
	if !strings.Contains(m, ".") {
		m += "."
	}
	if len(m) < 17 {
		m += strings.Repeat("0", 17-len(m)) // all 13 fraction digits
	}
	m += []string{"", "8", "80", "8000000000000000000001", "7fffffffffffffffffffff", "0000000000000000000001", "4", "c", "800000000000000000000", "1", "f"}[rng.Intn(11)]
	return m + e
}

const alphabet = "0123456789.eE+-xXpP_ infatyINFNA"

func mutate(s string) string {
	if len(s) == 0 {
		return s
	}
	b := []byte(s)
	i := rng.Intn(len(b))
	c := alphabet[rng.Intn(len(alphabet))]
	switch rng.Intn(4) {
	case 0:
		b[i] = c
	case 1:
		b = append(b[:i], b[i+1:]...)
	case 2:
		b = append(b[:i], append([]byte{c}, b[i:]...)...)
	default:
		b = append(b[:i], append([]byte{'_'}, b[i:]...)...)
	}
	return string(b)
}

var fixedParse = []string{
	"1.7976931348623157e308", "1.7976931348623158e308", "1.7976931348623159e308", "1e309", "-1e309", "1e308", "1.8e308",
	"179769313486231580793728971405303415079934132710037826936173778980444968292764750946649017977587207096330286416692887910946555547851940402630657488671505820681908902000708383676273854845817711531764475730270069855571366959622842914819860834936475292719074168444365510704342711559699508093042880177904174497791",
	"179769313486231580793728971405303415079934132710037826936173778980444968292764750946649017977587207096330286416692887910946555547851940402630657488671505820681908902000708383676273854845817711531764475730270069855571366959622842914819860834936475292719074168444365510704342711559699508093042880177904174497792",
	"179769313486231580793728971405303415079934132710037826936173778980444968292764750946649017977587207096330286416692887910946555547851940402630657488671505820681908902000708383676273854845817711531764475730270069855571366959622842914819860834936475292719074168444365510704342711559699508093042880177904174497791.9999",
	"4.9e-324", "5e-324", "2.4703282292062327e-324", "2.4703282292062328e-324", "2.47032822920623272e-324", "2.5e-324", "1e-400", "-1e-400", "1e-323", "7.4e-324", "7.5e-324",
	"2.2250738585072014e-308", "2.2250738585072011e-308", "2.225073858507201e-308", "2.2250738585072009e-308",
	"0x1p-2", "0x1.8p1", "0X1P+1023", "0x1p1024", "-0x1p1024", "0x.8p0", "0x1.fffffffffffffp1023", "0x1.fffffffffffff7p1023", "0x1.fffffffffffff8p1023", "0x1.fffffffffffff7ffffffffp1023",
	"0x1p-1074", "0x1p-1075", "0x1.0000000000001p-1075", "0x1p-1076", "0x0.8p-1074", "0x1.8p-1075", "0x3p-1076", "0x1p-99999", "0x1p99999", "0x0p99999", "-0x0p0",
	"0x1", "0x1.8", "0x", "0x.", "0x.p1", "0xp1", "0x1p", "0x1p+", "0x1p-", "0x1e5", "0x1e5p0", "0x1.p0", "0x_1p0", "0x1_0p0", "0x1p1_0", "0x1p_1", "0x1_p0", "0x1._8p0", "0x_.8p0", "0_x1p0", "0x__1p0",
	"1_000", "1_0.5", "1__0", "_1", "1_", "1_.5", "1._5", "1.5_", "1e1_0", "1e_10", "1_e10", "1e10_", "1_23.50_0_0e+1_2", "-_123.5e+12", "+_1", "0_1", "0_", "0_.1", "-0_1", "00_1",
	"+1", "-.5", "5.", ".", "", "+", "-", "e5", "1e", "1e+", "1e-", ".e1", "0e0", "-0", "+0", "-0.0", "0e99999999999", "-0e-99999999999", "1e99999999999", "1e-99999999999",
	"1e10000", "1e-10000", "1e100000", "0.1e100001", "1e+0000000000000000000000000000000000001", "00000000000000000000000000001", "0.00000000000000000000000000000000000000000001e44",
	"inf", "-Infinity", "+INF", "infin", "infinit", "infinity", "infinityx", "INFINITY", "iNf", "+infinity", "-inf", "--inf", "+-inf", "in", "i", "infi", "inf ", " inf", "infx",
	"nan", "NaN", "NAN", "+nan", "-nan", "nanx", "na", "n", "nan ", "naN",
	" 1", "1 ", "1.2.3", "0b101", "0o17", "0B1", "\xef\xbc\x91", "1\x00", "\x001", "1,5", "1e5e5", "1e5.5", "1.e5", ".5e1", "+.e1", "1e+5", "1E-5", "1x", "0x1g", "0xgp1", "1p5", "1f", "1d", "0d1",
	"9007199254740993", "9007199254740992", "9007199254740991", "9007199254740995", "9223372036854775807", "9223372036854775808", "18446744073709551615", "18446744073709551616",
	"123456789012345680000", "1e21", "1e-7", "1e-6", "1e23", "8.41e21", "0.1", "0.3", "100", "4.35", "0.000001", "1.00000000000000011102230246251565404236316680908203125",
	"1.00000000000000011102230246251565404236316680908203124", "1.00000000000000011102230246251565404236316680908203126", "1.00000000000000033306690738754696212708950042724609375",
}

func genParse() {
	switch rng.Intn(16) {
	case 0: // Go shortest renderings
		parseLine(strconv.FormatFloat(randF(), "gef"[rng.Intn(3)], -1, 64))
	case 1: // 17+ digits
		x := randF()
		switch rng.Intn(3) {
		case 0:
			parseLine(strconv.FormatFloat(x, 'e', 16+rng.Intn(10), 64))
		case 1:
			parseLine(strconv.FormatFloat(x, 'g', 17+rng.Intn(20), 64))
		default:
			if math.Abs(x) > 1e25 || math.Abs(x) < 1e-25 {
				x = rng.NormFloat64() * 1000
			}
			parseLine(strconv.FormatFloat(x, 'f', 15+rng.Intn(15), 64))
		}
	case 2, 3: // exact halfway cases and neighbours
		s := perturb(halfway())
		if rng.Intn(3) == 0 {
			s = sci(s)
		}
		if rng.Intn(2) == 0 {
			s = "-" + s
		}
		parseLine(s)
	case 4: // very long digit strings
		s := randDigits(803 + rng.Intn(400))
		switch rng.Intn(6) {
		case 0:
			k := rng.Intn(801)
			s = s[:k] + "." + s[k:]
		case 4: // 798..802 digits before the point: the edge of Go's decimal buffer
			k := 798 + rng.Intn(5)
			s = strconv.Itoa(1+rng.Intn(9)) + s[1:k] + "." + s[k:] + "e-" + strconv.Itoa(rng.Intn(1200))
		case 5:
			s = strconv.Itoa(1+rng.Intn(9)) + s[1:798+rng.Intn(5)] + "e-" + strconv.Itoa(rng.Intn(1200))
		case 1:
			s = "0." + s + "e" + strconv.Itoa(rng.Intn(700)-350)
		case 2:
			s = s + "e-" + strconv.Itoa(len(s)+rng.Intn(700)-350)
		default:
			s = "." + strings.Repeat("0", rng.Intn(400)) + s
		}
		parseLine(s)
	case 5: // digits with exponents across the whole range and beyond
		s := randDigits(1+rng.Intn(25)) + "e" + strconv.Itoa(rng.Intn(720)-380)
		if rng.Intn(2) == 0 {
			s = randDigits(1+rng.Intn(5)) + "." + s
		}
		parseLine(s)
	case 6: // near overflow / underflow thresholds
		base := []string{"1.7976931348623157", "1.7976931348623158", "1.797693134862315807", "1.797693134862315708", "4.9406564584124654", "2.4703282292062327", "2.4703282292062328", "2.2250738585072014"}[rng.Intn(8)]
		base += randDigits(rng.Intn(30))
		if base[0] == '1' {
			parseLine(base + "e308")
		} else if base[1] == '.' && base[0] == '2' && base[2] == '2' {
			parseLine(base + "e-308")
		} else {
			parseLine(base + "e-324")
		}
	case 7:
		parseLine(hexFloat())
	case 8:
		parseLine(hexOf())
	case 9: // random short strings over the alphabet
		n := rng.Intn(7)
		b := make([]byte, n)
		for i := range b {
			b[i] = alphabet[rng.Intn(len(alphabet))]
		}
		parseLine(string(b))
	case 10, 11: // mutated valid strings
		var s string
		switch rng.Intn(5) {
		case 0:
			s = hexFloat()
		case 1:
			s = []string{"inf", "Infinity", "-inf", "+Infinity", "nan", "NaN", "-INF"}[rng.Intn(7)]
		case 2:
			s = fixedParse[rng.Intn(len(fixedParse))]
			if len(s) > 60 {
				s = "1.5e3"
			}
		default:
			s = strconv.FormatFloat(randF(), "gef"[rng.Intn(3)], -1, 64)
		}
		for k := 1 + rng.Intn(2); k > 0; k-- {
			s = mutate(s)
		}
		parseLine(s)
	case 12: // short human-style decimals
		s := strconv.Itoa(rng.Intn(100000))
		if rng.Intn(2) == 0 {
			s += "." + randDigits(rng.Intn(6))
		}
		if rng.Intn(3) == 0 {
			s += "e" + strconv.Itoa(rng.Intn(60)-30)
		}
		parseLine([]string{"", "-", "+"}[rng.Intn(3)] + s)
	case 13: // 18-21 digit integers and decimals (uint64 mantissa overflow in readFloat)
		s := randDigits(17 + rng.Intn(6))
		if rng.Intn(2) == 0 {
			i := rng.Intn(len(s))
			s = s[:i] + "." + s[i:]
		}
		if rng.Intn(2) == 0 {
			s += "e" + strconv.Itoa(rng.Intn(60)-30)
		}
		parseLine(s)
	case 14: // valid strings with valid/invalid underscores
		s := strconv.FormatFloat(randF(), "gef"[rng.Intn(3)], -1, 64)
		if rng.Intn(3) == 0 {
			s = hexFloat()
		}
		for k := 1 + rng.Intn(3); k > 0 && len(s) > 0; k-- {
			i := rng.Intn(len(s) + 1)
			s = s[:i] + "_" + s[i:]
		}
		parseLine(s)
	default:
		parseLine(fixedParse[rng.Intn(len(fixedParse))])
	}
}

func main() {
	seed, _ := strconv.ParseInt(os.Args[1], 10, 64)
	count, _ := strconv.Atoi(os.Args[2])
	rng = rand.New(rand.NewSource(seed))
	out = bufio.NewWriterSize(os.Stdout, 1<<20)
	defer out.Flush()
	// the fixed lists first, on every run
	for _, s := range fixedParse {
		parseLine(s)
	}
	for _, b := range specials {
		x := fb(b)
		emit("format %s %s", hx(x), xs(strconv.FormatFloat(x, 'f', -1, 64)))
		emit("toGoInt %s %d", hx(x), toInt(x))
		emit("floor %s %s", hx(x), res(math.Floor(x)))
		emit("ceil %s %s", hx(x), res(math.Ceil(x)))
		emit("round %s %s", hx(x), res(math.Round(x)))
		emit("neg %s %s", hx(x), hx(negate(x)))
		if jb, err := json.Marshal(x); err != nil {
			emit("json %s none", hx(x))
		} else {
			emit("json %s %s", hx(x), xs(string(jb)))
		}
		for _, c := range specials {
			y := fb(c)
			emit("add %s %s %s", hx(x), hx(y), res(x+y))
			emit("sub %s %s %s", hx(x), hx(y), res(x-y))
			emit("mul %s %s %s", hx(x), hx(y), res(x*y))
			emit("div %s %s %s", hx(x), hx(y), res(x/y))
			emit("lt %s %s %s", hx(x), hx(y), b2s(x < y))
			emit("le %s %s %s", hx(x), hx(y), b2s(x <= y))
			emit("eq %s %s %s", hx(x), hx(y), b2s(x == y))
		}
	}
	for _, x := range []float64{1e21, 1e-7, 1e-6, 123456789012345680000, 1e20, math.Copysign(0, -1), 0, 1, -1, 100, 1e22, 9.999999999999999e20, 9.999999999999999e-7, 1.5e-9, 1e-10, 1e100, -1e-100, 5e-324, 1.7976931348623157e308} {
		jb, _ := json.Marshal(x)
		emit("json %s %s", hx(x), xs(string(jb)))
	}
	for i := 0; i < count; i++ {
		switch r := rng.Intn(100); {
		case r < 22:
			genFormat()
		case r < 46:
			genParse()
		case r < 66:
			genArith()
		case r < 72:
			genCmp()
		case r < 77:
			genOfInt()
		case r < 82:
			genToInt()
		case r < 90:
			genRound()
		default:
			genJSON()
		}
	}
}
