#!/bin/sh
# Builds the Lean driver and the Go generator, runs them on several seeds and counts mismatches per op.
# usage: ./run_tests.sh [COUNT_PER_SEED] [SEED...]
set -e
cd "$(dirname "$0")"
export PATH=$PATH:/usr/lib/go-1.23/bin GOFLAGS=-mod=mod GOPROXY=off GOSUMDB=off GOTOOLCHAIN=local
COUNT=${1:-120000}
[ $# -gt 0 ] && shift
SEEDS=${*:-"1 2 3"}
lake build f64test >/dev/null
(cd gen && go build -o ../.lake/gen .)
mkdir -p .lake/t
: > .lake/t/all.txt
for s in $SEEDS; do
  .lake/gen "$s" "$COUNT" > .lake/t/go.$s.txt
  start=$(date +%s.%N)
  .lake/build/bin/f64test < .lake/t/go.$s.txt > .lake/t/lean.$s.txt
  end=$(date +%s.%N)
  echo "seed $s: $(wc -l < .lake/t/go.$s.txt) lines, lean time $(echo "$end - $start" | bc) s"
  paste -d'|' .lake/t/go.$s.txt .lake/t/lean.$s.txt >> .lake/t/all.txt
done
awk -F'|' '{ split($1, a, " "); op = a[1]; n[op]++; tot++; if ($1 != $2) { bad[op]++; if (op == "parseX") next; nbad++; if (nbad <= 20) print "MISMATCH go: " $1 "\n       lean: " $2 } }
  END { for (op in n) printf "%-8s %8d tests %6d mismatches%s\n", op, n[op], bad[op]+0, (op == "parseX" ? "  (expected: Go bug for >800 digits before the point, not counted)" : "") | "sort"; close("sort"); printf "TOTAL    %8d tests %6d mismatches\n", tot, nbad+0 }' .lake/t/all.txt
