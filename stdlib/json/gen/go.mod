module gen

go 1.23
