// Test-line generator: runs Go's real encoding/json and prints the expected results.
// Usage: gen <seed> <n>      (line protocol: see ../Main.lean)
//
//	gen bench <bytes>   (a valid JSON stream for the throughput test)
package main

import (
	"bufio"
	"bytes"
	"encoding/binary"
	"encoding/hex"
	"encoding/json"
	"errors"
	"fmt"
	"io"
	"math/rand"
	"os"
	"strconv"
	"strings"
	"unicode/utf8"
)

var sentinel = errors.New("sentinel read error")

// chunkReader delivers data in chunks and then `final` (io.EOF or sentinel), either together
// with the last chunk or on the following Read.
type chunkReader struct {
	data     []byte
	pos      int
	rng      *rand.Rand
	final    error
	withData bool
	mode     int // 0: everything at once, 1: byte by byte, 2: random chunks
}

func (r *chunkReader) Read(p []byte) (int, error) {
	if r.pos >= len(r.data) {
		return 0, r.final
	}
	n := len(r.data) - r.pos
	switch r.mode {
	case 1:
		n = 1
	case 2:
		n = 1 + r.rng.Intn(n)
	}
	if n > len(p) {
		n = len(p)
	}
	copy(p, r.data[r.pos:r.pos+n])
	r.pos += n
	if r.pos == len(r.data) && r.withData {
		return n, r.final
	}
	return n, nil
}

// runDecode calls Decode(&v) with `var v any` until it fails.
func runDecode(rd io.Reader) (count int, fin byte) {
	dec := json.NewDecoder(rd)
	for {
		var v any
		err := dec.Decode(&v)
		if err == nil {
			count++
			continue
		}
		switch {
		case err == io.EOF:
			return count, 'E'
		case err == sentinel:
			return count, 'S'
		default:
			return count, 'X'
		}
	}
}

func hx(b []byte) string {
	if len(b) == 0 {
		return "-"
	}
	return hex.EncodeToString(b)
}

var out *bufio.Writer
var rng *rand.Rand

// emitD prints the D lines (both reader endings) for one input stream.
func emitD(data []byte, countOnly bool) {
	for _, mode := range []byte{'e', 'x'} {
		final := io.EOF
		if mode == 'x' {
			final = sentinel
		}
		count, fin := runDecode(&chunkReader{data: data, final: final})
		// self check: Go's result must not depend on how the reader chunks the data
		c2, f2 := runDecode(&chunkReader{data: data, final: final, rng: rng, withData: rng.Intn(2) == 0, mode: 1 + rng.Intn(2)})
		if c2 != count || f2 != fin {
			fmt.Fprintf(os.Stderr, "GO CHUNK DEPENDENCE on %q\n", data)
		}
		vals := "-"
		if countOnly {
			vals = "#" + strconv.Itoa(count)
		} else if count > 0 {
			// the same values with their number literals kept (json.Number is marshalled verbatim)
			dec := json.NewDecoder(bytes.NewReader(data))
			dec.UseNumber()
			var parts []string
			for i := 0; i < count; i++ {
				var v any
				if err := dec.Decode(&v); err != nil {
					panic(err)
				}
				b, err := json.MarshalIndent(v, "", "  ")
				if err != nil {
					panic(err)
				}
				parts = append(parts, hx(b))
			}
			vals = strings.Join(parts, ",")
		}
		fmt.Fprintf(out, "D %c %s %c %s\n", mode, hx(data), fin, vals)
	}
}

// ---------- random JSON text ----------

type gen struct{ b bytes.Buffer }

func pick(xs ...string) string { return xs[rng.Intn(len(xs))] }

func (g *gen) ws() {
	for rng.Intn(3) == 0 {
		g.b.WriteByte(" \t\r\n"[rng.Intn(4)])
	}
}

func digits(n int) string {
	var s strings.Builder
	for i := 0; i < n; i++ {
		s.WriteByte(byte('0' + rng.Intn(10)))
	}
	return s.String()
}

func number() string {
	if rng.Intn(4) == 0 {
		return pick("0", "-0", "1e999", "-1e999", "1E+2", "1e-999", "0.0", "0e999", "1.7976931348623157e308",
			"1.7976931348623158e308", "1.7976931348623159e308", "-1.7976931348623159e308", "1e308", "1e309", "2e308",
			"17976931348623157e292", "179769313486231580793728971405303415079934132710037826936173778980444968292764750946649017977587207096330286416692887910946555547851940402630657488671505820681908902000708383676273854845817711531764475730270069855571366959622842914819860834936475292719074168444365510704342711559699508093042880177904174497791",
			"179769313486231580793728971405303415079934132710037826936173778980444968292764750946649017977587207096330286416692887910946555547851940402630657488671505820681908902000708383676273854845817711531764475730270069855571366959622842914819860834936475292719074168444365510704342711559699508093042880177904174497792",
			"123456789012345678901234567890", "0.1e310", "0.00001e313", "1234567890.0987654321e-5", "4.9e-324", "1e400", "9e307", "10e307", "100e306")
	}
	var s strings.Builder
	if rng.Intn(3) == 0 {
		s.WriteByte('-')
	}
	if rng.Intn(4) == 0 {
		s.WriteByte('0')
	} else {
		s.WriteByte(byte('1' + rng.Intn(9)))
		s.WriteString(digits(rng.Intn(5)))
	}
	if rng.Intn(3) == 0 {
		s.WriteString("." + digits(1+rng.Intn(4)))
	}
	if rng.Intn(3) == 0 {
		s.WriteString(pick("e", "E") + pick("", "+", "-") + digits(1+rng.Intn(3)))
	}
	return s.String()
}

func hex4(v int) string {
	s := fmt.Sprintf("%04x", v)
	if rng.Intn(2) == 0 {
		s = strings.ToUpper(s)
	}
	return `\u` + s
}

func hi() int { return 0xD800 + rng.Intn(0x400) }
func lo() int { return 0xDC00 + rng.Intn(0x400) }

// strBody writes the inside of a JSON string literal (always scanner-valid).
func (g *gen) strBody() {
	for n := rng.Intn(6); n > 0; n-- {
		switch rng.Intn(12) {
		case 0, 1, 2:
			for k := 1 + rng.Intn(4); k > 0; k-- {
				c := byte(0x20 + rng.Intn(0x60)) // incl. DEL, < > & ' /
				if c != '"' && c != '\\' {
					g.b.WriteByte(c)
				}
			}
		case 3:
			g.b.WriteString(pick(`\"`, `\\`, `\/`, `\b`, `\f`, `\n`, `\r`, `\t`))
		case 4:
			g.b.WriteString(hex4(rng.Intn(0x10000)))
		case 5:
			g.b.WriteString(hex4([]int{0, 0x1f, 0x22, 0x5c, 0x7f, 0x80, 0x7ff, 0x800, 0x2028, 0x2029, 0xfffd, 0xffff, 0xd7ff, 0xe000, 0x3c}[rng.Intn(15)]))
		case 6: // surrogates: paired, lone, reversed, ...
			switch rng.Intn(7) {
			case 0:
				g.b.WriteString(hex4(hi()) + hex4(lo()))
			case 1:
				g.b.WriteString(hex4(hi()))
			case 2:
				g.b.WriteString(hex4(lo()))
			case 3:
				g.b.WriteString(hex4(lo()) + hex4(hi()))
			case 4:
				g.b.WriteString(hex4(hi()) + hex4(hi()) + hex4(lo()))
			case 5:
				g.b.WriteString(hex4(hi()) + pick("x", `\n`, `A`, " "+hex4(lo()), `\\u`+fmt.Sprintf("%04x", lo())))
			case 6:
				g.b.WriteString(hex4(hi()) + hex4(lo()) + hex4(lo()))
			}
		case 7, 8: // valid multi-byte runes
			rs := []rune{0x80, 0x7ff, 0x800, 0xffff, 0x10000, 0x10ffff, 0x2028, 0x2029, 0xfffd, 0xe9, 0x20ac, 0x1f600, 0xd7ff, 0xe000}
			r := rs[rng.Intn(len(rs))]
			if rng.Intn(2) == 0 {
				r = rune(0x80 + rng.Intn(0x10ff80))
				if r >= 0xd800 && r < 0xe000 {
					r = 0xe9
				}
			}
			g.b.WriteString(string(r))
		case 9, 10: // invalid UTF-8
			switch rng.Intn(5) {
			case 0:
				g.b.WriteByte(byte(0x80 + rng.Intn(0x80)))
			case 1: // truncated sequence
				e := []byte(string(rune(0x800 + rng.Intn(0x10f000))))
				if e[0] == 0xed && e[1] >= 0xa0 {
					e[1] = 0x80
				}
				g.b.Write(e[:1+rng.Intn(len(e)-1)])
			case 2:
				g.b.WriteString(pick("\xc0\x80", "\xc1\xbf", "\xe0\x80\x80", "\xe0\x9f\xbf", "\xf0\x80\x80\x80", "\xf0\x8f\xbf\xbf",
					"\xed\xa0\x80", "\xed\xbf\xbf", "\xf4\x90\x80\x80", "\xf5\x80\x80\x80", "\xff", "\xfe", "\xe2\x80", "\xe2\x80\x28", "\xe2\x28\xa8"))
			case 3: // valid lead, bad continuation
				g.b.WriteByte(byte(0xc2 + rng.Intn(0x33)))
				g.b.WriteByte("AZ@_ 09~\x7f"[rng.Intn(9)]) // an ASCII byte where a continuation byte is due
			case 4:
				g.b.WriteByte(byte(0x80 + rng.Intn(0x40)))
				g.b.WriteByte(byte(0x80 + rng.Intn(0x40)))
			}
		case 11:
			g.b.WriteString(pick("<", ">", "&", "'", "\x7f", "/", "</script>"))
		}
	}
}

func (g *gen) str() {
	g.b.WriteByte('"')
	g.strBody()
	g.b.WriteByte('"')
}

func (g *gen) key() {
	if rng.Intn(3) > 0 { // small pool: duplicates (also after unquoting) and shared prefixes
		g.b.WriteString(pick(`"a"`, `"\u0061"`, `"b"`, `"ab"`, `"abc"`, `""`, `"A"`, "\"\xc3\xa9\"", `"\u00e9"`, `"\u00E9"`,
			"\"\xff\"", `"\ufffd"`, "\"\xfe\"", `"\ud800"`, `"a\u0000"`, `"a\u0020"`, `"a\/"`, `"a/"`, `"B"`, `"aa"`))
	} else {
		g.str()
	}
}

func (g *gen) value(depth int) {
	k := rng.Intn(9)
	if depth >= 6 && k >= 7 {
		k = rng.Intn(7)
	}
	switch k {
	case 0:
		g.b.WriteString("null")
	case 1:
		g.b.WriteString("true")
	case 2:
		g.b.WriteString("false")
	case 3, 4:
		g.b.WriteString(number())
	case 5, 6:
		g.str()
	case 7:
		g.b.WriteByte('[')
		g.ws()
		for i, n := 0, rng.Intn(4); i < n; i++ {
			if i > 0 {
				g.b.WriteByte(',')
				g.ws()
			}
			g.value(depth + 1)
			g.ws()
		}
		g.b.WriteByte(']')
	case 8:
		g.b.WriteByte('{')
		g.ws()
		for i, n := 0, rng.Intn(5); i < n; i++ {
			if i > 0 {
				g.b.WriteByte(',')
				g.ws()
			}
			g.key()
			g.ws()
			g.b.WriteByte(':')
			g.ws()
			g.value(depth + 1)
			g.ws()
		}
		g.b.WriteByte('}')
	}
}

var junk = []string{"]", "}", ",", ":", "x", "tru", "nul", "fals", "truE", `"abc`, `"ab\`, `"\u12`, "-", "1.", "1e", "1e+", "[1,", "[", "{",
	`{"a"`, `{"a":`, `{"a":1,`, "NaN", "Infinity", "-Infinity", "'a'", "[1,]", `{"a":1,}`, "// c", "/* c */", "\xef\xbb\xbf", "\x00", "\x0b", "\x0c",
	"01", "+1", ".5", "1.e1", "\"\t\"", "\"\n\"", `"\x"`, `"\'"`, `"\u12g4"`, "[1 2]", `{"a" 1}`, `{1:2}`, `{"a":1 "b":2}`, "[,1]", "{,}", "[}", "{]", "\xa0", "\xc2\xa0"}

func stream() []byte {
	var g gen
	g.ws()
	for n := rng.Intn(5); n > 0; n-- {
		g.value(0)
		if rng.Intn(5) < 3 {
			g.b.WriteByte(" \t\r\n"[rng.Intn(4)])
		}
		g.ws()
	}
	if rng.Intn(5) == 0 {
		g.b.WriteString(junk[rng.Intn(len(junk))])
		g.ws()
		if rng.Intn(2) == 0 {
			g.value(0)
		}
	}
	return append([]byte(nil), g.b.Bytes()...)
}

func corrupt(d []byte) []byte {
	d = append([]byte(nil), d...)
	rb := func() byte {
		if rng.Intn(2) == 0 {
			const special = "[]{},:\"\\ \n-+.eE0123456789truefalsnu/'\x00\x1f\x7f\x80\xff"
			return special[rng.Intn(len(special))]
		}
		return byte(rng.Intn(256))
	}
	if len(d) == 0 {
		return []byte{rb()}
	}
	i := rng.Intn(len(d))
	switch rng.Intn(3) {
	case 0:
		d[i] = rb()
	case 1:
		d = append(d[:i], append([]byte{rb()}, d[i:]...)...)
	case 2:
		d = append(d[:i], d[i+1:]...)
	}
	return d
}

var corpus = []string{"", " ", "\n\t\r ", "1 2", "[1][2]", `"a""b"`, "truefalse", "1]", "[1] ] [2]", "nullnull", "true1", "1true", `1"a"`, `"a"1`,
	"12[", "1-2", "0123", "1e5e5", "1.5.5", "-", "-0", "-0.0e-0", "1e999", "[1e999", "[1e999]", "[1e999,}", `{"a":1e999,"a":1}`, `{"a":1,"a":1e999}`,
	`{"a":[1e999]} 5`, "1e999 5", "NaN", "Infinity", "'a'", "[1,]", `{"a":1,}`, "// c\n1", "\xef\xbb\xbf1", "1\xef\xbb\xbf", `{"a":1}{"b":2}`, `[[]]`, `{}`, `[]`,
	`[ ]`, `{ }`, `{"a":{}}`, `"\ud800\udc00"`, `"\udc00\ud800"`, `"\ud800"`, `"\ud800\ud800\udc00"`, `"\ud83d\ude00"`, `"\uD83D\uDE00"`, "\"\xff\xfe\"",
	"\"\xe2\x80\xa8\"", `"\u2028"`, "\"\x7f\"", "\"\x1f\"", `"\u0000"`, `{"b":1,"a":2,"b":3}`, `{"a":1,"a":2}`, "{\"\xff\":1,\"\xfe\":2}", `{"":1}`,
	"tru", "true", "true ", "truex", "t", "nul", "null", "nullx", "fals", "false", "[true]x", "[1]]", "[1],", `"abc`, `"abc"`, `"abc"x`, "1x", "1 x", "[1", "{\"a\":1",
	"1.", "1.0", "1.0e", "1.0e+", "1.0e+1", "1.0e+1 ", "[1.]", "[-]", "[1e]", "[01]", "[0 1]", "0 1", "00", "-00", "0e0", "0E-0", "0.e1", " 1", "\t[\n]\r", "1\n2\n", "1,2", "1:2",
	`{"a":"b","c":["d",{"e":null}],"f":-1.5e+3}`, `[1, {"a": null}]`, `"\'"`, `"\/"`, "[\"\xc3\xa9\xe2\x82\xac\"]", "\x00", "1\x00", `"a` + "\x00" + `"`, "\xc2\xa01", "1\xc2\xa0"}

// ---------- family 3/4: random trees ----------

func be32(n int) []byte { var b [4]byte; binary.BigEndian.PutUint32(b[:], uint32(n)); return b[:] }

func treeBytes() []byte {
	var b []byte
	for n := rng.Intn(8); n > 0; n-- {
		switch rng.Intn(8) {
		case 0, 1:
			b = append(b, byte(rng.Intn(256)))
		case 2:
			b = append(b, byte(rng.Intn(0x20)))
		case 3:
			const special = "<>&\"\\/'\x7f\x08\x0c\n\r\t\x00\x1f \x0b"
			b = append(b, special[rng.Intn(len(special))])
		case 4:
			b = append(b, pick("\u2028", "\u2029", "\u2027", "\u202a", "\ufffd", "\u00e9", "\U0001f600", "\U0010ffff", "\u0080", "\ud7ff", "\ue000")...)
		case 5:
			b = append(b, pick("\xe2\x80", "\xe2\x80\x28", "\xe2", "\xc0\x80", "\xed\xa0\x80", "\xf4\x90\x80\x80", "\xf0\x9f\x98", "\xff", "\xc2", "\xe2\x80\xa8\xe2\x80")...)
		default:
			b = append(b, byte(0x20+rng.Intn(0x5f)))
		}
	}
	return b
}

func treeKey() string {
	if rng.Intn(2) == 0 {
		return pick("", "a", "ab", "abc", "b", "a\x00", "a\xff", "\xff", "\xfe", "\u00e9", "e\u0301", "A", "Z", "a<", "\u2028", "a ", "aa", "a\"", "a\\", "\x7f", "\x80", "\xc3", "\xc3\xa9\x00", "\U0001f600", "\uffff")
	}
	return string(treeBytes())
}

// tree returns a Go value and its serialization for the Lean driver.
func tree(depth int) (any, []byte) {
	k := rng.Intn(9)
	if depth >= 5 && k >= 7 {
		k = rng.Intn(7)
	}
	switch k {
	case 0:
		return nil, []byte{'n'}
	case 1:
		return true, []byte{'t'}
	case 2:
		return false, []byte{'f'}
	case 3, 4:
		s := number()
		return json.Number(s), append(append([]byte{'d'}, be32(len(s))...), s...)
	case 5, 6:
		s := treeBytes()
		return string(s), append(append([]byte{'s'}, be32(len(s))...), s...)
	case 7:
		n := rng.Intn(4)
		vs := make([]any, 0)
		ser := append([]byte{'a'}, be32(n)...)
		for i := 0; i < n; i++ {
			v, s := tree(depth + 1)
			vs = append(vs, v)
			ser = append(ser, s...)
		}
		return vs, ser
	default:
		m := map[string]any{}
		var keys []string
		var sers [][]byte
		for n := rng.Intn(6); n > 0; n-- {
			key := treeKey()
			if _, dup := m[key]; dup {
				continue
			}
			v, s := tree(depth + 1)
			m[key] = v
			keys = append(keys, key)
			sers = append(sers, s)
		}
		ser := append([]byte{'o'}, be32(len(keys))...)
		for _, i := range rng.Perm(len(keys)) {
			ser = append(ser, be32(len(keys[i]))...)
			ser = append(ser, keys[i]...)
			ser = append(ser, sers[i]...)
		}
		return m, ser
	}
}

func emitM() {
	v, ser := tree(0)
	b, err := json.MarshalIndent(v, "", "  ")
	if err != nil {
		panic(err)
	}
	dec := json.NewDecoder(bytes.NewReader(b))
	dec.UseNumber()
	var w any
	if err := dec.Decode(&w); err != nil {
		panic(err)
	}
	b2, err := json.MarshalIndent(w, "", "  ")
	if err != nil {
		panic(err)
	}
	if !utf8.Valid(b2) {
		panic("round trip output not UTF-8")
	}
	fmt.Fprintf(out, "M %s %s %s\n", hx(ser), hx(b), hx(b2))
}

// ---------- family 5: nesting depth ----------

func depthCases() {
	for _, n := range []int{9999, 10000, 10001} {
		emitD([]byte(strings.Repeat("[", n)+strings.Repeat("]", n)), true)
		emitD([]byte(strings.Repeat("[", n)+strings.Repeat("]", n)+" 1"), true)
		emitD([]byte(strings.Repeat("[", n)), true) // unterminated: needs more / exceeds at once
		emitD([]byte(strings.Repeat(`{"a":`, n)+"1"+strings.Repeat("}", n)), true)
		emitD([]byte(strings.Repeat(`{"a":`, n-1)+"{}"+strings.Repeat("}", n-1)+"[]"), true)
		emitD([]byte(strings.Repeat(`{"a":`, n)), true)
		emitD([]byte(strings.Repeat(`[{"a":`, n/2)+strings.Repeat(`[`, n%2)+strings.Repeat(`]`, n%2)+strings.Repeat("}]", n/2)), true)
	}
}

// bench writes about `size` bytes of valid newline-separated JSON values (for the throughput test).
func bench(size int) {
	for total := 0; total < size; {
		var g gen
		g.value(0)
		g.b.WriteByte('\n')
		if n, fin := runDecode(bytes.NewReader(g.b.Bytes())); n != 1 || fin != 'E' { // skip out-of-range numbers
			continue
		}
		out.Write(g.b.Bytes())
		total += g.b.Len()
	}
}

func main() {
	out = bufio.NewWriterSize(os.Stdout, 1<<20)
	defer out.Flush()
	if os.Args[1] == "bench" {
		rng = rand.New(rand.NewSource(7))
		size, _ := strconv.Atoi(os.Args[2])
		bench(size)
		return
	}
	seed, _ := strconv.ParseInt(os.Args[1], 10, 64)
	n, _ := strconv.Atoi(os.Args[2])
	rng = rand.New(rand.NewSource(seed))

	for _, s := range corpus {
		d := []byte(s)
		for i := 0; i <= len(d); i++ { // every truncation point
			emitD(d[:i], false)
		}
	}
	for _, s := range junk {
		emitD([]byte(s), false)
		emitD([]byte("[1] "+s), false)
	}
	depthCases()
	for i := 0; i < n; i++ {
		d := stream()
		emitD(d, false)
		emitD(corrupt(d), false)
		if rng.Intn(4) == 0 {
			emitD(corrupt(corrupt(d)), false)
		}
		if len(d) <= 40 && rng.Intn(3) == 0 {
			for j := 0; j < len(d); j++ {
				emitD(d[:j], false)
			}
		}
		emitM()
	}
}
