#!/bin/sh
# Builds the Lean model + driver and the Go generator, runs the differential tests and prints
# per-family case / mismatch counts.  Usage: ./run_tests.sh [N per seed (default 12000)] [seeds (default "1 2 3")]
set -e
cd "$(dirname "$0")"
export GOFLAGS=-mod=mod GOPROXY=off GOSUMDB=off GOTOOLCHAIN=local
export PATH="$PATH:/usr/lib/go-1.23/bin"
N="${1:-12000}"
SEEDS="${2:-1 2 3}"

lake build Json jsontest
(cd gen && go build -o gen .)

echo "== forbidden constructs in Json.lean (must be empty) =="
grep -n "partial\|unsafe\|sorry\|implemented_by\|native_decide" Json.lean || true

status=0
for seed in $SEEDS; do
  echo "== seed $seed, n=$N =="
  ./gen/gen "$seed" "$N" | ./.lake/build/bin/jsontest || status=1
done

echo "== throughput =="
tmp="$(mktemp)"
./gen/gen bench 10000000 > "$tmp"
./.lake/build/bin/jsontest bench "$tmp" || status=1
rm -f "$tmp"
exit $status
