/-
  Differential test driver.  Reads test lines (produced by gen/main.go from Go's real encoding/json)
  on stdin, evaluates the Lean model and prints per-family case / mismatch counts.

  Line protocol (fields separated by one space; byte strings hex encoded, "-" = empty):
    D <mode> <input> <final> <vals>
        mode  e: the Go reader ended with io.EOF;  x: it ended with a custom (sentinel) error
        final E: last Decode returned io.EOF; S: it surfaced the sentinel; X: any other error
        vals  "-" | v1,v2,…  (MarshalIndent of every successfully decoded value) | "#n" (only their number)
    M <tree> <out> <rt>
        tree  binary tree encoding (see `parseTree`), out = MarshalIndent(tree),
        rt = MarshalIndent(Decode(out))
-/
import Json
open Jqawk Jqawk.Json

def hexNib (c : UInt8) : UInt8 :=
  if c ≥ 0x61 then c - 0x57 else if c ≥ 0x41 then c - 0x37 else c - 0x30

def unhex (s : String) : ByteArray := Id.run do
  if s == "-" then return ByteArray.empty
  let u := s.toUTF8
  let mut out := ByteArray.emptyWithCapacity (u.size / 2)
  for i in [0:u.size / 2] do
    out := out.push (hexNib u[2*i]! * 16 + hexNib u[2*i+1]!)
  return out

def hexDig (n : UInt8) : Char := Char.ofNat (if n < 10 then 48 + n.toNat else 87 + n.toNat)
def tohex (b : Bytes) : String :=
  if b.isEmpty then "-"
  else String.ofList (b.foldr (fun (c : UInt8) acc => hexDig (c >>> 4) :: hexDig (c &&& 15) :: acc) [])

/-- exact model of "strconv.ParseFloat(lit, 64) has no range error": |x| < 2^1024 - 2^970 -/
def numOk (lit : Bytes) : Bool := Id.run do
  let s := match lit with | 0x2D :: r => r | r => r
  let ip := s.takeWhile isDigit
  let s := s.dropWhile isDigit
  let (frac, s) := match s with
    | 0x2E :: r => (r.takeWhile isDigit, r.dropWhile isDigit)
    | r => ([], r)
  let nat (ds : Bytes) : Nat := ds.foldl (fun a d => a * 10 + (d.toNat - 48)) 0
  let exp : Int := match s with
    | _ :: 0x2D :: r => - (nat r : Int)
    | _ :: 0x2B :: r => nat r
    | _ :: r => nat r
    | [] => 0
  let m := nat (ip ++ frac)
  if m == 0 then return true
  let nd := (toString m).length
  let e10 : Int := exp - frac.length
  let adj : Int := nd + e10
  if adj > 310 then return false
  if adj < 300 then return true
  let bound := 2^1024 - 2^970
  if e10 ≥ 0 then return m * 10^e10.toNat < bound
  return m < bound * 10^((-e10).toNat)

/-- repeat Decode until it does not return a value -/
partial def decodeAll (f : Bytes → Bool) (inp : Bytes) (t : Tail) (acc : Array JVal) : Array JVal × DecodeRes :=
  match decodeOne f inp t with
  | .value v rest => decodeAll f rest t (acc.push v)
  | r => (acc, r)

def u32 (a : ByteArray) (i : Nat) : Nat :=
  ((a[i]!.toNat * 256 + a[i+1]!.toNat) * 256 + a[i+2]!.toNat) * 256 + a[i+3]!.toNat

def slice (a : ByteArray) (i n : Nat) : Bytes := (a.extract i (i + n)).toList

/-- tree encoding: n | t | f | d len bytes | s len bytes | a count items | o count (len key value)*;
    len/count are 4 bytes big endian -/
partial def parseTree (a : ByteArray) (i : Nat) : JVal × Nat :=
  match a[i]! with
  | 0x6E => (.null, i + 1)
  | 0x74 => (.bool true, i + 1)
  | 0x66 => (.bool false, i + 1)
  | 0x64 => let n := u32 a (i+1); (.num (slice a (i+5) n), i + 5 + n)
  | 0x73 => let n := u32 a (i+1); (.str (slice a (i+5) n), i + 5 + n)
  | 0x61 => Id.run do
    let n := u32 a (i+1)
    let mut j := i + 5
    let mut items : Array JVal := #[]
    for _ in [0:n] do
      let (v, j') := parseTree a j
      items := items.push v; j := j'
    return (.arr items.toList, j)
  | _ => Id.run do
    let n := u32 a (i+1)
    let mut j := i + 5
    let mut ms : Array (Bytes × JVal) := #[]
    for _ in [0:n] do
      let kl := u32 a j
      let k := slice a (j+4) kl
      let (v, j') := parseTree a (j + 4 + kl)
      ms := ms.push (k, v); j := j'
    return (.obj ms.toList, j)

/-- invalid UTF-8 bytes → U+FFFD (what an encode/decode round trip does to a string) -/
def sanitizeBytes (s : Bytes) : Bytes :=
  (transduce (fun c rest => match utf8Width c rest with
      | 0 => (fffdRev, 0)
      | w + 1 => ((c :: rest.take w).reverse, w)) 0 s []).reverse

/-- expected result of decoding (marshalIndent v) -/
partial def sanitize : JVal → JVal
  | .str s => .str (sanitizeBytes s)
  | .arr xs => .arr (xs.map sanitize)
  | .obj ms =>
    let sorted := ms.foldl (fun acc (k, v) => insertMember k v acc) []
    .obj (sorted.foldl (fun acc (k, v) => insertMember (sanitizeBytes k) (sanitize v) acc) [])
  | v => v

structure Stats where
  cases : Nat := 0
  bad : Nat := 0
  deriving Inhabited

abbrev Tab := Array (String × Stats)

def bump (t : Tab) (fam : String) (ok : Bool) (n : Nat := 1) : Tab := Id.run do
  for i in [0:t.size] do
    if t[i]!.1 == fam then
      return t.set! i (fam, { cases := t[i]!.2.cases + n, bad := t[i]!.2.bad + (if ok then 0 else 1) })
  return t.push (fam, { cases := n, bad := if ok then 0 else 1 })

def resTag : DecodeRes → String
  | .value _ _ => "V" | .eof => "E" | .error => "X" | .needMore => "S"

/-- compare decoded values with the expected `vals` field -/
def valsOk (vs : Array JVal) (field : String) : Bool :=
  if field.startsWith "#" then toString vs.size == (field.drop 1).toString
  else
    let got := ",".intercalate (vs.toList.map (fun v => tohex (marshalIndent v)))
    (if vs.isEmpty then "-" else got) == field

/-- family 2: for every split point the `.more` result on the prefix is needMore or agrees with the whole -/
def prefixCheck (inp : Bytes) : Nat × Bool := Id.run do
  let wholes := [Tail.eof, Tail.ioerr, Tail.more].map (fun t => decodeOne numOk inp t)
  let mut ok := true
  for i in [0:inp.length + 1] do
    let suffix := inp.drop i
    match decodeOne numOk (inp.take i) .more with
    | .needMore => pure ()
    | .value v rest => if !(wholes.all (· == .value v (rest ++ suffix))) then ok := false
    | .error => if !(wholes.all (· == .error)) then ok := false
    | .eof => ok := false
  return (inp.length + 1, ok)

def maxPrefixLen := 64

def processLine (t : Tab) (lineNo : Nat) (line : String) : IO Tab := do
  let fs := line.splitOn " "
  let report (fam : String) (msg : String) : IO Unit :=
    IO.eprintln s!"MISMATCH {fam} line {lineNo}: {msg}"
  match fs with
  | ["D", mode, inpH, fin, vals] =>
    let inp := (unhex inpH).toList
    let depthCase := vals.startsWith "#"
    let mut t := t
    if mode == "e" then
      let (vs, r) := decodeAll numOk inp .eof #[]
      let ok := resTag r == fin && valsOk vs vals
      if !ok then report "decode-eof" s!"input={inpH} got={resTag r} n={vs.size} want={fin} {vals}"
      t := bump t (if depthCase then "5-depth" else "1-decode-eof") ok
      if inp.length ≤ maxPrefixLen then
        let (n, ok) := prefixCheck inp
        if !ok then report "prefix" s!"input={inpH}"
        t := bump t "2-prefix-stability" ok n
    else
      let (vs, r) := decodeAll numOk inp .ioerr #[]
      let ok := resTag r == "X" && valsOk vs vals
      if !ok then report "decode-ioerr" s!"input={inpH} got={resTag r} n={vs.size} want=X(for {fin}) {vals}"
      t := bump t (if depthCase then "5-depth" else "1-decode-ioerr") ok
      let (vs, r) := decodeAll numOk inp .more #[]
      let ok := resTag r == fin && valsOk vs vals
      if !ok then report "decode-more" s!"input={inpH} got={resTag r} n={vs.size} want={fin} {vals}"
      t := bump t (if depthCase then "5-depth" else "1-decode-more") ok
    return t
  | ["M", treeH, outH, rtH] =>
    let (v, _) := parseTree (unhex treeH) 0
    let out := marshalIndent v
    let ok := tohex out == outH
    if !ok then report "marshal" s!"tree={treeH} got={tohex out} want={outH}"
    let t := bump t "3-marshalIndent" ok
    let always : Bytes → Bool := fun _ => true
    let ok := match decodeOne always out .eof with
      | .value v' [] =>
        tohex (marshalIndent v') == rtH && v' == sanitize v
          && decodeOne always (marshalIndent v') .eof == .value v' []
      | _ => false
    if !ok then report "roundtrip" s!"tree={treeH}"
    return bump t "4-round-trip" ok
  | _ =>
    if line.isEmpty then return t
    IO.eprintln s!"bad line {lineNo}: {line.take 40}"
    return bump t "0-bad-lines" false

partial def loop (h : IO.FS.Stream) (t : Tab) (n : Nat) : IO Tab := do
  let line ← h.getLine
  if line.isEmpty then return t
  loop h (← processLine t n (line.trimAscii.toString)) (n + 1)

/-- `jsontest bench FILE`: decode a whole file of JSON values, re-marshal them, report throughput -/
def bench (path : String) : IO UInt32 := do
  let data := (← IO.FS.readBinFile path).toList
  let t0 ← IO.monoMsNow
  let (vs, r) := decodeAll numOk data .eof #[]
  let t1 ← IO.monoMsNow
  let outLen := vs.foldl (fun n v => n + (marshalIndent v).length) 0
  let t2 ← IO.monoMsNow
  let mbps (bytes ms : Nat) : Float := bytes.toFloat / 1e6 / (max ms 1).toFloat * 1000
  IO.println s!"decode: {data.length} bytes, {vs.size} values, final={resTag r}, {t1 - t0} ms, {mbps data.length (t1 - t0)} MB/s"
  IO.println s!"marshalIndent: {outLen} bytes, {t2 - t1} ms, {mbps outLen (t2 - t1)} MB/s"
  return if resTag r == "E" then 0 else 1

def main (args : List String) : IO UInt32 := do
  if let ["bench", path] := args then return (← bench path)
  let t ← loop (← IO.getStdin) #[] 1
  let sorted := t.qsort (fun a b => a.1 < b.1)
  let mut total := 0
  let mut bad := 0
  for (fam, s) in sorted do
    IO.println s!"{fam}: cases={s.cases} mismatches={s.bad}"
    total := total + s.cases; bad := bad + s.bad
  IO.println s!"TOTAL: cases={total} mismatches={bad}"
  return if bad == 0 then 0 else 1
